//! Op-server: executes one JSON request per line against the *public* API of the
//! hdwallet library built from the working tree and prints one JSON observation
//! per line. It decides nothing; all judging happens in the Python monitors.

use ethdigest::Digest;
use ethnum::U256;
use hdwallet::{
    account::{PrivateKey, Signature},
    hdk,
    message::EthereumMessage,
    mnemonic::{Language, Mnemonic},
    transaction::Transaction,
    typeddata::TypedData,
};
use serde_json::{json, Value};
use std::{
    cell::RefCell,
    io::{self, BufRead, Write},
    panic::{self, AssertUnwindSafe},
    sync::Mutex,
};

// ---------------------------------------------------------------------------
// Entropy source override. The library's only FFI call is `getentropy`; defining
// the symbol in the executable makes the in-process call land here, so the
// monitor knows exactly which bytes the "operating system" returned.
// ---------------------------------------------------------------------------

struct EntropyScript {
    /// bytes handed out, consumed front to back; when exhausted a counter pattern
    bytes: Vec<u8>,
    pos: usize,
    /// fail the k-th call (1-based) with -1; 0 = never
    fail_at: usize,
    /// fail every call from the k-th on; 0 = never
    fail_from: usize,
    /// errno reported by an injected failure
    errno: i32,
    calls: Vec<(usize, i32, String)>,
    active: bool,
    /// the last bytes served successfully in this process, across requests (a library that fetches entropy ahead may hand out
    /// bytes it was served during an earlier request)
    recent: Vec<u8>,
}

static ENTROPY: Mutex<EntropyScript> = Mutex::new(EntropyScript {
    bytes: Vec::new(),
    pos: 0,
    fail_at: 0,
    fail_from: 0,
    errno: 5,
    calls: Vec::new(),
    active: false,
    recent: Vec::new(),
});

#[cfg(not(miri))]
extern "C" {
    fn __errno_location() -> *mut i32;
    fn getrandom(buf: *mut u8, len: usize, flags: u32) -> isize;
}

/// # Safety
/// Called by the library through its `extern "C"` declaration.
#[cfg(not(miri))]
#[no_mangle]
pub unsafe extern "C" fn getentropy(buffer: *mut u8, len: usize) -> i32 {
    let mut script = ENTROPY.lock().unwrap_or_else(|e| e.into_inner());
    if !script.active {
        // pass through to the real OS source (same semantics as libc)
        if len > 256 {
            *__errno_location() = 5;
            return -1;
        }
        let mut done = 0;
        while done < len {
            let n = getrandom(buffer.add(done), len - done, 0);
            if n < 0 {
                return -1;
            }
            done += n as usize;
        }
        return 0;
    }
    let k = script.calls.len() + 1;
    if len > 256 || (script.fail_at != 0 && k == script.fail_at) || (script.fail_from != 0 && k >= script.fail_from) {
        script.calls.push((len, -1, String::new()));
        *__errno_location() = if len > 256 { 5 } else { script.errno };
        return -1;
    }
    let mut out = Vec::with_capacity(len);
    for _ in 0..len {
        let b = if script.pos < script.bytes.len() {
            script.bytes[script.pos]
        } else {
            (script.pos as u8).wrapping_mul(37).wrapping_add(11)
        };
        script.pos += 1;
        out.push(b);
    }
    std::ptr::copy_nonoverlapping(out.as_ptr(), buffer, len);
    script.calls.push((len, 0, hex::encode(&out)));
    script.recent.extend_from_slice(&out);
    if script.recent.len() > 8192 {
        let cut = script.recent.len() - 4096;
        script.recent.drain(..cut);
    }
    0
}

// ---------------------------------------------------------------------------

thread_local! {
    static LAST_PANIC: RefCell<Option<String>> = const { RefCell::new(None) };
}

fn hexarg(req: &Value, key: &str) -> Result<Vec<u8>, String> {
    let s = req[key].as_str().ok_or_else(|| format!("missing {key}"))?;
    hex::decode(s).map_err(|e| format!("bad hex in {key}: {e}"))
}

fn strarg<'a>(req: &'a Value, key: &str) -> Result<&'a str, String> {
    req[key].as_str().ok_or_else(|| format!("missing {key}"))
}

fn err(stage: &str, e: impl std::fmt::Display) -> Value {
    json!({"err": e.to_string(), "stage": stage})
}

fn sig_json(sig: &Signature) -> Value {
    json!({
        "r": format!("{:x}", sig.r()),
        "s": format!("{:x}", sig.s()),
        "parity": sig.y_parity().as_u64(),
        "text": sig.to_string(),
    })
}

fn digest_arg(req: &Value, key: &str) -> Result<Digest, String> {
    let b = hexarg(req, key)?;
    let a: [u8; 32] = b.try_into().map_err(|_| "digest must be 32 bytes".to_string())?;
    Ok(Digest(a))
}

fn run(req: &Value) -> Result<Value, String> {
    let op = strarg(req, "op")?;
    Ok(match op {
        "ping" => json!({"ok": {"pong": true, "hooks": cfg!(feature = "hooks"),
                                 "debug_assertions": cfg!(debug_assertions)}}),
        "mnemonic.parse" => match Mnemonic::from_phrase(strarg(req, "phrase")?) {
            Ok(m) => {
                let printed = m.to_phrase();
                let display = m.to_string();
                let reparse = match printed.parse::<Mnemonic>() {
                    Ok(m2) => json!({"ok": m2.to_phrase()}),
                    Err(e) => json!({"err": e.to_string()}),
                };
                json!({"ok": {"printed": printed, "display": display, "length": m.mnemonic_length(),
                               "reparse": reparse}})
            }
            Err(e) => err("parse", format!("{e:#}")),
        },
        "mnemonic.seed" => match Mnemonic::from_phrase(strarg(req, "phrase")?) {
            Ok(m) => {
                let seed = m.seed(strarg(req, "password")?);
                json!({"ok": {"seed": hex::encode(&*seed)}})
            }
            Err(e) => err("parse", format!("{e:#}")),
        },
        // one parsed phrase asked for several seeds in a row (a seed memoised inside the object would show here)
        "mnemonic.seeds" => match Mnemonic::from_phrase(strarg(req, "phrase")?) {
            Ok(m) => {
                let mut seeds = Vec::new();
                for p in req["passwords"].as_array().ok_or("missing passwords")? {
                    let seed = m.seed(p.as_str().ok_or("password is not a string")?);
                    seeds.push(hex::encode(&*seed));
                }
                json!({"ok": {"seeds": seeds}})
            }
            Err(e) => err("parse", format!("{e:#}")),
        },
        "mnemonic.random" => {
            let length = req["length"].as_u64().ok_or("missing length")? as usize;
            {
                let mut s = ENTROPY.lock().unwrap_or_else(|e| e.into_inner());
                s.bytes = match req.get("entropy").and_then(Value::as_str) {
                    Some(h) => hex::decode(h).map_err(|e| e.to_string())?,
                    None => Vec::new(),
                };
                s.pos = 0;
                s.fail_at = req.get("fail_at").and_then(Value::as_u64).unwrap_or(0) as usize;
                s.fail_from = req.get("fail_from").and_then(Value::as_u64).unwrap_or(0) as usize;
                s.errno = req.get("errno").and_then(Value::as_u64).unwrap_or(5) as i32;
                s.calls.clear();
                s.active = !req.get("passthrough").and_then(Value::as_bool).unwrap_or(false);
            }
            let result = panic::catch_unwind(AssertUnwindSafe(|| Mnemonic::random(Language::English, length)));
            let (calls, recent) = {
                let mut s = ENTROPY.lock().unwrap_or_else(|e| e.into_inner());
                s.active = false;
                let calls = s
                    .calls
                    .iter()
                    .map(|(len, ret, bytes)| json!({"len": len, "ret": ret, "bytes": bytes}))
                    .collect::<Vec<_>>();
                // only reported when this request was served without any entropy call of its own
                let recent = if calls.is_empty() { hex::encode(&s.recent) } else { String::new() };
                (calls, recent)
            };
            match result {
                Ok(Ok(m)) => {
                    let printed = m.to_phrase();
                    let reparse = match printed.parse::<Mnemonic>() {
                        Ok(m2) => json!({"ok": m2.to_phrase()}),
                        Err(e) => json!({"err": e.to_string()}),
                    };
                    json!({"ok": {"phrase": printed, "length": m.mnemonic_length(), "reparse": reparse},
                           "calls": calls, "recent": recent})
                }
                Ok(Err(e)) => json!({"err": format!("{e:#}"), "stage": "random", "calls": calls}),
                Err(_) => {
                    let msg = LAST_PANIC.with(|p| p.borrow_mut().take()).unwrap_or_default();
                    json!({"panic": msg, "calls": calls})
                }
            }
        }
        "wordlist.scan" => wordscan(req)?,
        "path.parse" => match strarg(req, "text")?.parse::<hdk::Path>() {
            Ok(p) => {
                let printed = p.to_string();
                let comps = p
                    .components()
                    .map(|c| match c {
                        hdk::Component::Hardened(v) => json!([v, true]),
                        hdk::Component::Normal(v) => json!([v, false]),
                    })
                    .collect::<Vec<_>>();
                let reparse = match printed.parse::<hdk::Path>() {
                    Ok(p2) => json!({"ok": p2.to_string()}),
                    Err(e) => json!({"err": e.to_string()}),
                };
                json!({"ok": {"printed": printed, "components": comps, "reparse": reparse}})
            }
            Err(e) => err("path", format!("{e:#}")),
        },
        "path.for_index" => {
            let index: usize = strarg(req, "index")?.parse().map_err(|_| "index not a usize")?;
            for_index(index)
        }
        "hdk.derive" => {
            let seed = hexarg(req, "seed")?;
            match strarg(req, "path")?.parse::<hdk::Path>() {
                Ok(path) => match hdk::derive(&seed, &path) {
                    Ok(key) => json!({"ok": {"secret": hex::encode(key.secret()), "printed": path.to_string(),
                                              "address": key.address().to_string()}}),
                    Err(e) => err("derive", format!("{e:#}")),
                },
                Err(e) => err("path", format!("{e:#}")),
            }
        }
        "account.derive" => {
            // the whole user pipeline: phrase + password + path -> key
            match Mnemonic::from_phrase(strarg(req, "phrase")?) {
                Ok(m) => {
                    let seed = m.seed(strarg(req, "password")?);
                    match strarg(req, "path")?.parse::<hdk::Path>() {
                        Ok(path) => match hdk::derive(seed, &path) {
                            Ok(key) => json!({"ok": {"secret": hex::encode(key.secret()),
                                                      "address": key.address().to_string()}}),
                            Err(e) => err("derive", format!("{e:#}")),
                        },
                        Err(e) => err("path", format!("{e:#}")),
                    }
                }
                Err(e) => err("parse", format!("{e:#}")),
            }
        }
        "key.new" => match PrivateKey::new(hexarg(req, "bytes")?) {
            Ok(key) => json!({"ok": {
                "secret": hex::encode(key.secret()),
                "pub65": hex::encode(key.public().encode_uncompressed()),
                "address": key.address().to_string(),
                "address_bytes": hex::encode(&*key.address()),
                "debug": format!("{key:?}"),
            }}),
            Err(e) => err("key", format!("{e:#}")),
        },
        "key.sign" => match PrivateKey::new(hexarg(req, "secret")?) {
            Ok(key) => {
                let digest = digest_arg(req, "digest")?;
                let first = key.sign(digest);
                let second = match key.try_sign(digest) {
                    Ok(s) => sig_json(&s),
                    Err(e) => json!({"err": e.to_string()}),
                };
                json!({"ok": {"sig": sig_json(&first), "again": second, "address": key.address().to_string(),
                               "pub65": hex::encode(key.public().encode_uncompressed())}})
            }
            Err(e) => err("key", format!("{e:#}")),
        },
        "sig.parse" => match strarg(req, "text")?.parse::<Signature>() {
            Ok(sig) => json!({"ok": sig_json(&sig)}),
            Err(e) => err("sig", format!("{e:#}")),
        },
        "sig.v" => {
            let r = U256::from_str_radix(strarg(req, "r")?, 16).map_err(|e| e.to_string())?;
            let s = U256::from_str_radix(strarg(req, "s")?, 16).map_err(|e| e.to_string())?;
            let parity = req["parity"].as_u64().ok_or("missing parity")? as u8;
            let chain_id = match req.get("chain_id").and_then(Value::as_str) {
                Some(c) => Some(U256::from_str_radix(c, 10).map_err(|e| e.to_string())?),
                None => None,
            };
            let sig = Signature::from_parts(r, s, parity);
            json!({"ok": {"v": sig.v(chain_id).to_string(), "text": sig.to_string()}})
        }
        "tx.process" => {
            let text = strarg(req, "json")?;
            match serde_json::from_str::<Transaction>(text) {
                Ok(tx) => {
                    let (kind, unsigned, chain_id) = match &tx {
                        Transaction::Legacy(t) => ("legacy", t.rlp_encode(None), t.chain_id.map(|c| c.to_string())),
                        Transaction::Eip2930(t) => ("eip2930", t.rlp_encode(None), Some(t.chain_id.to_string())),
                        Transaction::Eip1559(t) => ("eip1559", t.rlp_encode(None), Some(t.chain_id.to_string())),
                    };
                    let hash = tx.signing_message();
                    let mut out = json!({
                        "kind": kind,
                        "unsigned": hex::encode(&unsigned),
                        "hash": hex::encode(*hash),
                        "chain_id": chain_id,
                    });
                    if let Some(secret) = req.get("secret").and_then(Value::as_str) {
                        let key = PrivateKey::new(hex::decode(secret).map_err(|e| e.to_string())?)
                            .map_err(|e| e.to_string())?;
                        let sig = key.sign(hash);
                        out["sig"] = sig_json(&sig);
                        out["signed"] = json!(hex::encode(tx.encode(sig)));
                    }
                    if let Some(text) = req.get("with_sig").and_then(Value::as_str) {
                        match text.parse::<Signature>() {
                            Ok(sig) => out["encoded_with"] = json!(hex::encode(tx.encode(sig))),
                            Err(e) => out["encoded_with_err"] = json!(e.to_string()),
                        }
                    }
                    json!({"ok": out})
                }
                Err(e) => err("json", e),
            }
        }
        "msg.hash" => {
            let bytes = hexarg(req, "bytes")?;
            json!({"ok": {"digest": hex::encode(*EthereumMessage(bytes).signing_message())}})
        }
        "typeddata.hash" => match serde_json::from_str::<TypedData>(strarg(req, "json")?) {
            Ok(td) => json!({"ok": {
                "digest": hex::encode(*td.signing_message()),
                "domain_separator": hex::encode(*td.domain_separator()),
                "message_hash": hex::encode(*td.message_hash()),
            }}),
            Err(e) => err("json", e),
        },
        _ => hook_op(op, req)?,
    })
}

fn for_index(index: usize) -> Value {
    // `Path::for_index` may return `Path` or `Result<Path>`; accept both.
    trait IntoPathResult {
        fn into_path_result(self) -> Result<hdk::Path, String>;
    }
    impl IntoPathResult for hdk::Path {
        fn into_path_result(self) -> Result<hdk::Path, String> {
            Ok(self)
        }
    }
    impl<E: std::fmt::Display> IntoPathResult for Result<hdk::Path, E> {
        fn into_path_result(self) -> Result<hdk::Path, String> {
            self.map_err(|e| e.to_string())
        }
    }
    // The parameter may be `usize` or a narrower integer type; an index that does not fit is an ordinary error.
    let arg = match index.try_into() {
        Ok(arg) => arg,
        Err(_) => return err("path", "account index does not fit the parameter type of Path::for_index"),
    };
    match hdk::Path::for_index(arg).into_path_result() {
        Ok(p) => json!({"ok": {"printed": p.to_string()}}),
        Err(e) => err("path", e),
    }
}

#[cfg(feature = "hooks")]
fn hook_op(op: &str, req: &Value) -> Result<Value, String> {
    use hdwallet::transaction::verif_rlp as rlp;
    Ok(match op {
        "rlp.len" => {
            let n: usize = strarg(req, "n")?.parse().map_err(|_| "n not a usize")?;
            let offset = req["offset"].as_u64().ok_or("missing offset")? as u8;
            json!({"ok": {"bytes": hex::encode(rlp::len(n, offset))}})
        }
        "rlp.bytes" => json!({"ok": {"bytes": hex::encode(rlp::bytes(&hexarg(req, "bytes")?))}}),
        "rlp.uint" => {
            let v = U256::from_str_radix(strarg(req, "value")?, 10).map_err(|e| e.to_string())?;
            json!({"ok": {"bytes": hex::encode(rlp::uint(v))}})
        }
        "rlp.list" => {
            let items = req["items"]
                .as_array()
                .ok_or("missing items")?
                .iter()
                .map(|v| hex::decode(v.as_str().unwrap_or("")).map_err(|e| e.to_string()))
                .collect::<Result<Vec<_>, _>>()?;
            let refs = items.iter().map(|v| v.as_slice()).collect::<Vec<_>>();
            json!({"ok": {"bytes": hex::encode(rlp::list(&refs))}})
        }
        "eip712.encode_type" => match hdwallet::typeddata::verif::encode_type(strarg(req, "types")?, strarg(req, "name")?) {
            Ok(s) => json!({"ok": {"encoded": s}}),
            Err(e) => err("types", format!("{e:#}")),
        },
        "eip712.member_kind" => {
            json!({"ok": {"image": hdwallet::typeddata::verif::member_kind_image(strarg(req, "text")?)}})
        }
        _ => return Err(format!("unknown op {op}")),
    })
}

#[cfg(not(feature = "hooks"))]
fn hook_op(op: &str, _req: &Value) -> Result<Value, String> {
    match op {
        "rlp.len" | "rlp.bytes" | "rlp.uint" | "rlp.list" | "eip712.encode_type" | "eip712.member_kind" => {
            Ok(json!({"nohook": true}))
        }
        _ => Err(format!("unknown op {op}")),
    }
}

/// High-volume probe of the word lookup: generates `count` tokens from `seed` and reports every token the lookup accepts
/// (level "search": `Wordlist::search`; level "phrase": the token replaces one word of a valid phrase given to
/// `Mnemonic::from_phrase`). Whether an accepted token is legitimate is decided by the monitor against its own pinned list.
#[cfg(feature = "wordscan")]
fn wordscan(req: &Value) -> Result<Value, String> {
    let mut x = req["seed"].as_u64().ok_or("missing seed")? | 1;
    let count = req["count"].as_u64().ok_or("missing count")?;
    let mode = strarg(req, "mode")?;
    let level = strarg(req, "level")?;
    let mut next = move || {
        x ^= x >> 12;
        x ^= x << 25;
        x ^= x >> 27;
        x.wrapping_mul(0x2545_F491_4F6C_DD1D)
    };
    let list = Language::English.wordlist();
    let base = req.get("phrase").and_then(Value::as_str).unwrap_or("").split(' ').map(str::to_string).collect::<Vec<_>>();
    let mut accepted = Vec::new();
    let mut sample = Vec::new();
    let mut token = String::new();
    for n in 0..count {
        token.clear();
        let r = next();
        if mode == "random" {
            let len = 3 + (r % 6) as usize;
            let mut bits = next();
            for _ in 0..len {
                token.push((b'a' + (bits % 26) as u8) as char);
                bits /= 26;
            }
        } else {
            // one or two edits of a list word
            let w = list.word((r % 2048) as usize).as_bytes().to_vec();
            let mut w = w;
            let edits = 1 + ((r >> 11) % 2) as usize;
            for _ in 0..edits {
                let e = next();
                let pos = ((e >> 8) % (w.len().max(1) as u64)) as usize;
                let ch = b'a' + ((e >> 24) % 26) as u8;
                match e % 6 {
                    0 => w[pos] = ch,
                    1 => w.insert(pos, ch),
                    2 if w.len() > 1 => {
                        w.remove(pos);
                    }
                    3 => w.push(ch),
                    4 if pos + 1 < w.len() => w.swap(pos, pos + 1),
                    _ => w.truncate(4.max(pos)),
                }
            }
            token.push_str(std::str::from_utf8(&w).unwrap_or("x"));
        }
        if n < 3 {
            sample.push(token.clone());
        }
        if level == "search" {
            if let Some(i) = list.search(&token) {
                accepted.push(json!({"token": token, "index": i}));
            }
        } else {
            let pos = (next() % base.len() as u64) as usize;
            let mut words = base.clone();
            words[pos] = token.clone();
            if let Ok(m) = Mnemonic::from_phrase(words.join(" ")) {
                accepted.push(json!({"token": token, "pos": pos, "printed": m.to_phrase()}));
            }
        }
        if accepted.len() > 5000 {
            break;
        }
    }
    Ok(json!({"ok": {"tested": count, "accepted": accepted, "sample": sample}}))
}

#[cfg(not(feature = "wordscan"))]
fn wordscan(_req: &Value) -> Result<Value, String> {
    Ok(json!({"unavailable": true}))
}

fn handle(line: &str) -> Value {
    let req: Value = match serde_json::from_str(line) {
        Ok(v) => v,
        Err(e) => return json!({"harness_error": format!("bad request: {e}")}),
    };
    let result = panic::catch_unwind(AssertUnwindSafe(|| run(&req)));
    match result {
        Ok(Ok(v)) => v,
        Ok(Err(e)) => json!({"harness_error": e}),
        Err(_) => {
            let msg = LAST_PANIC.with(|p| p.borrow_mut().take()).unwrap_or_default();
            json!({"panic": msg})
        }
    }
}

fn main() {
    panic::set_hook(Box::new(|info| {
        let msg = if let Some(s) = info.payload().downcast_ref::<&str>() {
            s.to_string()
        } else if let Some(s) = info.payload().downcast_ref::<String>() {
            s.clone()
        } else {
            "<non-string panic>".to_string()
        };
        let loc = info.location().map(|l| format!("{}:{}", l.file(), l.line())).unwrap_or_default();
        LAST_PANIC.with(|p| *p.borrow_mut() = Some(format!("{msg} @ {loc}")));
    }));

    let args = std::env::args().collect::<Vec<_>>();
    let stdout = io::stdout();
    let mut out = io::BufWriter::new(stdout.lock());
    if args.len() >= 3 && args[1] == "--file" {
        // batch mode (used under Miri, where stdin is not convenient)
        let data = std::fs::read_to_string(&args[2]).expect("cannot read request file");
        for line in data.lines().filter(|l| !l.trim().is_empty()) {
            let v = handle(line);
            writeln!(out, "{v}").unwrap();
            out.flush().unwrap();
        }
        return;
    }
    let stdin = io::stdin();
    for line in stdin.lock().lines() {
        let line = match line {
            Ok(l) => l,
            Err(_) => break,
        };
        if line.trim().is_empty() {
            continue;
        }
        let v = handle(&line);
        writeln!(out, "{v}").unwrap();
        out.flush().unwrap();
    }
}
