//! Coverage-guided workload for C17: every user-reachable parser, selected by the first input byte. The monitor is the
//! panic hook / AddressSanitizer / libFuzzer's timeout and RSS limit; no result is judged here.
#![no_main]
use hdwallet::{
    account::{PrivateKey, Signature},
    hdk,
    mnemonic::Mnemonic,
    transaction::Transaction,
    typeddata::TypedData,
};
use libfuzzer_sys::fuzz_target;

fuzz_target!(|data: &[u8]| {
    let Some((&sel, rest)) = data.split_first() else { return };
    let text = String::from_utf8_lossy(rest);
    match sel % 8 {
        0 => {
            if let Ok(m) = Mnemonic::from_phrase(&*text) {
                let printed = m.to_phrase();
                let again = Mnemonic::from_phrase(&printed).expect("printed phrase must parse back");
                assert_eq!(again.to_phrase(), printed);
                assert_eq!(m.mnemonic_length(), printed.split(' ').count());
            }
        }
        1 => {
            if let Ok(p) = text.parse::<hdk::Path>() {
                let printed = p.to_string();
                let again = printed.parse::<hdk::Path>().expect("printed path must parse back");
                assert_eq!(again.to_string(), printed);
                if p.components().count() <= 4 {
                    let _ = hdk::derive([7u8; 32], &p);
                }
            }
        }
        2 => {
            if let Ok(s) = text.parse::<Signature>() {
                let printed = s.to_string();
                let again = printed.parse::<Signature>().expect("printed signature must parse back");
                assert_eq!(again, s);
            }
        }
        3 | 4 => {
            if let Ok(tx) = serde_json::from_slice::<Transaction>(rest) {
                let _ = tx.signing_message();
                if let Ok(key) = PrivateKey::new([1u8; 32]) {
                    if sel % 8 == 4 {
                        let sig = key.sign(tx.signing_message());
                        let _ = tx.encode(sig);
                    }
                }
            }
        }
        5 | 6 => {
            if let Ok(td) = serde_json::from_slice::<TypedData>(rest) {
                let _ = td.signing_message();
                let _ = td.message_hash();
            }
        }
        _ => {
            let _ = PrivateKey::new(rest).map(|k| k.address());
        }
    }
});
