/* LD_PRELOAD interposer for the operating system entropy boundary of hdwallet.
 *
 * Wraps getentropy(3) (what hdwallet calls) and getrandom(2)'s libc wrapper
 * (logged under a separate tag so a refactor to another libc entry point is not
 * mis-judged; Rust's std hash seeding also shows up there and is ignored by the
 * monitors).
 *
 * Environment:
 *   VERIF_ENT_LOG=<file>     append one record per call, one write(2) each:
 *                            "<tag> <seq> <thread-ordinal> <len> <ret> <hex>\n"   tag E=getentropy R=getrandom
 *   VERIF_ENT_MODE=pass|zero|ones|counter|prng|hex   what getentropy returns (default pass = real source)
 *   VERIF_ENT_SEED=<u64>     seed for counter / prng
 *   VERIF_ENT_HEX=<hex>      bytes served front to back in hex mode (then prng)
 *   VERIF_ENT_FAIL_AT=<k>    k-th getentropy call (1-based) returns -1, errno=EIO
 *   VERIF_ENT_FAIL_FROM=<k>  every getentropy call from the k-th on fails
 *   VERIF_ENT_ERRNO=<n>      errno reported by an injected failure (default 5 = EIO)
 *   VERIF_ENT_CAP=<n>        logical-step bound: the process _exit(97)s once more than n' getentropy calls AND more than
 *                            16*n' bytes have been requested, where n' = n while a single thread has asked for entropy and
 *                            n' = n + VERIF_ENT_CAP_SLACK * (threads seen, at most 64) otherwise (losing workers keep asking
 *                            between the winner's result and the process exit; the thread count is what the interposer sees,
 *                            not what the command line says). The byte clause keeps the budget in candidates the same for a
 *                            tool that fetches its entropy in several small requests.
 *   VERIF_ENT_CAP_SLACK=<n>  see above (default 0)
 *   VERIF_ENT_POSTFAIL_DELAY=<usec>  after the first injected failure, the first later call of every thread sleeps that long
 *                            before it is served: entropy served after a fault then provably reaches the tool long after
 *                            the failure was reported to it (no race between a failing worker and a lucky one)
 *   VERIF_ENT_DELAY=<o>:<usec>[,<o>:<usec>...]  usleep before serving a call made by thread ordinal o
 *                            ("*" = every ordinal not listed)
 */
#define _GNU_SOURCE
#include <dlfcn.h>
#include <errno.h>
#include <fcntl.h>
#include <pthread.h>
#include <stdint.h>
#include <stdio.h>
#include <stdlib.h>
#include <string.h>
#include <sys/types.h>
#include <unistd.h>

static pthread_mutex_t g_mu = PTHREAD_MUTEX_INITIALIZER;
static int g_init = 0;
static int g_logfd = -1;
static int g_mode = 0; /* 0 pass 1 zero 2 ones 3 counter 4 prng 5 hex */
static uint64_t g_seed = 0;
static unsigned char *g_hex = NULL;
static size_t g_hexlen = 0, g_hexpos = 0;
static long g_fail_at = 0, g_fail_from = 0, g_cap = 0, g_errno = EIO;
static long g_seq = 0;     /* getentropy calls */
static unsigned long long g_bytes = 0; /* bytes requested through getentropy */
static long g_rseq = 0;    /* getrandom calls */
static long g_delay[256];
static long g_delay_default = 0;
static int g_nthreads = 0;
static __thread int t_ord = -1;
static long g_cap_slack = 0;
static long g_postfail_delay = 0;
static int g_failed = 0;          /* an injected failure has been reported */
static __thread int t_postfail_done = 0;

static int (*real_getentropy)(void *, size_t) = NULL;
static ssize_t (*real_getrandom)(void *, size_t, unsigned int) = NULL;

static int hexval(int c) {
    if (c >= '0' && c <= '9') return c - '0';
    if (c >= 'a' && c <= 'f') return c - 'a' + 10;
    if (c >= 'A' && c <= 'F') return c - 'A' + 10;
    return -1;
}

static void init_locked(void) {
    if (g_init) return;
    g_init = 1;
    real_getentropy = (int (*)(void *, size_t))dlsym(RTLD_NEXT, "getentropy");
    real_getrandom = (ssize_t(*)(void *, size_t, unsigned int))dlsym(RTLD_NEXT, "getrandom");
    const char *p = getenv("VERIF_ENT_LOG");
    if (p && *p) g_logfd = open(p, O_WRONLY | O_CREAT | O_APPEND | O_CLOEXEC, 0644);
    p = getenv("VERIF_ENT_MODE");
    if (p) {
        if (!strcmp(p, "zero")) g_mode = 1;
        else if (!strcmp(p, "ones")) g_mode = 2;
        else if (!strcmp(p, "counter")) g_mode = 3;
        else if (!strcmp(p, "prng")) g_mode = 4;
        else if (!strcmp(p, "hex")) g_mode = 5;
    }
    p = getenv("VERIF_ENT_SEED");
    if (p) g_seed = strtoull(p, NULL, 10);
    p = getenv("VERIF_ENT_HEX");
    if (p) {
        size_t n = strlen(p) / 2;
        g_hex = malloc(n ? n : 1);
        for (size_t i = 0; i < n; i++) {
            int hi = hexval(p[2 * i]), lo = hexval(p[2 * i + 1]);
            if (hi < 0 || lo < 0) { n = i; break; }
            g_hex[i] = (unsigned char)(hi * 16 + lo);
        }
        g_hexlen = n;
    }
    p = getenv("VERIF_ENT_FAIL_AT");
    if (p) g_fail_at = atol(p);
    p = getenv("VERIF_ENT_FAIL_FROM");
    if (p) g_fail_from = atol(p);
    p = getenv("VERIF_ENT_ERRNO");
    if (p && atol(p) > 0) g_errno = atol(p);
    p = getenv("VERIF_ENT_CAP");
    if (p) g_cap = atol(p);
    p = getenv("VERIF_ENT_CAP_SLACK");
    if (p) g_cap_slack = atol(p);
    p = getenv("VERIF_ENT_POSTFAIL_DELAY");
    if (p) g_postfail_delay = atol(p);
    for (int i = 0; i < 256; i++) g_delay[i] = -1;
    p = getenv("VERIF_ENT_DELAY");
    if (p) {
        char *dup = strdup(p), *save = NULL;
        for (char *tok = strtok_r(dup, ",", &save); tok; tok = strtok_r(NULL, ",", &save)) {
            char *colon = strchr(tok, ':');
            if (!colon) continue;
            *colon = 0;
            long us = atol(colon + 1);
            if (!strcmp(tok, "*")) g_delay_default = us;
            else {
                int o = atoi(tok);
                if (o >= 0 && o < 256) g_delay[o] = us;
            }
        }
        free(dup);
    }
}

static uint64_t splitmix(uint64_t *s) {
    uint64_t z = (*s += 0x9E3779B97F4A7C15ULL);
    z = (z ^ (z >> 30)) * 0xBF58476D1CE4E5B9ULL;
    z = (z ^ (z >> 27)) * 0x94D049BB133111EBULL;
    return z ^ (z >> 31);
}

static void log_record(char tag, long seq, int ord, size_t len, int ret, const unsigned char *buf) {
    if (g_logfd < 0) return;
    char line[64 + 2 * 256 + 2];
    int n = snprintf(line, sizeof line, "%c %ld %d %zu %d ", tag, seq, ord, len, ret);
    static const char *hx = "0123456789abcdef";
    if (ret == 0 && buf && len <= 256) {
        for (size_t i = 0; i < len; i++) {
            line[n++] = hx[buf[i] >> 4];
            line[n++] = hx[buf[i] & 15];
        }
    } else {
        line[n++] = '-';
    }
    line[n++] = '\n';
    ssize_t w = write(g_logfd, line, (size_t)n); /* one write per record: atomic with O_APPEND */
    (void)w;
}

static int ordinal_locked(void) {
    if (t_ord < 0) t_ord = g_nthreads++;
    return t_ord;
}

int getentropy(void *buffer, size_t len) {
    pthread_mutex_lock(&g_mu);
    init_locked();
    long seq = ++g_seq;
    int ord = ordinal_locked();
    long delay = (ord < 256 && g_delay[ord] >= 0) ? g_delay[ord] : g_delay_default;
    int mode = g_mode;
    int fail = (g_fail_at && seq == g_fail_at) || (g_fail_from && seq >= g_fail_from);
    g_bytes += len;
    long cap = g_cap;
    if (g_cap && g_nthreads > 1) cap += g_cap_slack * (g_nthreads < 64 ? g_nthreads : 64);
    /* second clause: a tool that fetches entropy in large batches makes few requests; bound it by bytes (room for 2*cap candidates
       of 32 bytes), or a search that can never match would only end at the CPU limit */
    int capped = g_cap && ((seq > cap && g_bytes > 16ULL * (unsigned long long)cap) || g_bytes > 64ULL * (unsigned long long)cap);
    if (g_failed && !fail && g_postfail_delay > 0 && !t_postfail_done) {
        t_postfail_done = 1;
        delay += g_postfail_delay;
    }
    if (fail) g_failed = 1;
    unsigned char tmp[256];
    int scripted = 0;
    if (!fail && !capped && mode != 0 && len <= 256) {
        scripted = 1;
        uint64_t t = g_seed * 0x100000001B3ULL ^ ((uint64_t)seq * 0xD6E8FEB86659FD93ULL);
        uint64_t s = splitmix(&t); /* independent stream per call */
        for (size_t i = 0; i < len; i++) {
            unsigned char b = 0;
            switch (mode) {
            case 1: b = 0x00; break;
            case 2: b = 0xff; break;
            case 3: b = (unsigned char)(g_seed + (uint64_t)(seq - 1) * len + i); break;
            case 4: b = (unsigned char)(splitmix(&s) >> 24); break;
            case 5:
                if (g_hexpos < g_hexlen) b = g_hex[g_hexpos++];
                else b = (unsigned char)(splitmix(&s) >> 24);
                break;
            }
            tmp[i] = b;
        }
    }
    pthread_mutex_unlock(&g_mu);

    if (capped) {
        log_record('C', seq, ord, len, -97, NULL);
        _exit(97);
    }
    if (delay > 0) usleep((useconds_t)delay);
    if (fail || len > 256) {
        log_record('E', seq, ord, len, -1, NULL);
        errno = fail ? (int)g_errno : EIO;
        return -1;
    }
    int ret;
    if (scripted) {
        memcpy(buffer, tmp, len);
        ret = 0;
    } else if (real_getentropy) {
        ret = real_getentropy(buffer, len);
    } else {
        errno = ENOSYS;
        ret = -1;
    }
    log_record('E', seq, ord, len, ret, (const unsigned char *)buffer);
    return ret;
}

ssize_t getrandom(void *buffer, size_t len, unsigned int flags) {
    pthread_mutex_lock(&g_mu);
    init_locked();
    long seq = ++g_rseq;
    int ord = ordinal_locked();
    pthread_mutex_unlock(&g_mu);
    ssize_t ret;
    if (real_getrandom) ret = real_getrandom(buffer, len, flags);
    else { errno = ENOSYS; ret = -1; }
    log_record('R', seq, ord, len, ret < 0 ? -1 : 0, (ret >= 0 && (size_t)ret == len) ? (const unsigned char *)buffer : NULL);
    return ret;
}
