"""Helpers for CLI workloads: accounts (mnemonic + passphrase + selector), their
reference keys, and argv/env renderings."""
from .gen import complete_last, rand_words
from .ref import bip39, eth

GANACHE = "myth like bonus scare over problem client lizard pioneer submit female collect".split()


def rand_account(rng, simple=False):
    n = 12 if simple else rng.choice(bip39.LEGAL_COUNTS)
    w = rand_words(rng, n - 1)
    words = w + [complete_last(rng, w)]
    if rng.random() < 0.1:
        words = list(GANACHE)
    pw = "" if (simple or rng.random() < 0.5) else rng.choice(["TREZOR", "p@ss w0rd", "\u00e9\u00e8", "x" * 40, "-dash", "\U0001f600", "--password", "a=b", "=",
                                                                "--mnemonic=x", " lead", "trail ", "'q'", "$HOME", "%s", "\\", "a\tb", "hunter2\n", "pw\r\n", "\n", "pw\n\n", "\tpw", "pw\r"])
    if not simple and rng.random() < 0.04:
        pw = " ".join(words)  # the passphrase equal to the phrase
    r = rng.random()
    if simple or r < 0.3:
        sel = None
    elif r < 0.7:
        sel = ("index", rng.choice([0, 1, 2, 7, 2**31 - 1, rng.randrange(0, 2**31), rng.randrange(0, 100), 10, 44, 60, 255, 256, 65535, 65536, 2**31 - 2]))
    else:
        depth = rng.randint(1, 8)
        comps = [(rng.choice([0, 1, 44, 60, 2**31 - 1, rng.randrange(2**31)]), rng.random() < 0.5) for _ in range(depth)]
        if rng.random() < 0.15:
            comps = eth.default_path(rng.choice([0, 0, 1, 5]))  # the default shape given explicitly
        sel = ("path", eth.format_path(comps))
    return {"words": words, "password": pw, "sel": sel}


def account_components(acc):
    sel = acc["sel"]
    if sel is None:
        return eth.default_path(0)
    if sel[0] == "index":
        return eth.default_path(sel[1])
    return eth.parse_path_strict(sel[1])


def account_key(acc):
    seed = bip39.seed(acc["words"], acc["password"])
    return eth.bip32_derive(seed, account_components(acc))


def account_args(rng, acc, style=None):
    """Returns (argv list placed right after the subcommand name, env dict)."""
    style = style or rng.choice(["flags", "env", "mixed"])
    argv, env = [], {}

    def put(flag, envname, value):
        use_env = style == "env" or (style == "mixed" and rng.random() < 0.5)
        if use_env:
            env[envname] = value
        elif flag == "--mnemonic" and rng.random() < 0.3:
            argv.extend(["-m", value])  # the short form
        elif rng.random() < 0.5:
            argv.append("%s=%s" % (flag, value))
        else:
            if value.startswith("-"):
                argv.append("%s=%s" % (flag, value))
            else:
                argv.extend([flag, value])

    phrase = " ".join(acc["words"])
    if rng.random() < 0.25:
        # the same words in a hostile layout (trailing newline from `$(cat file)`, tabs, doubled blanks, non-ASCII white space)
        from .gen import messy_layout
        phrase = messy_layout(rng, acc["words"], bip39.ASCII_WS if rng.random() < 0.7 else bip39.UNICODE_WS.replace("\x00", ""))
        if not phrase.strip() or phrase.lstrip() != phrase and phrase.lstrip().startswith("-"):
            phrase = " ".join(acc["words"])
    put("--mnemonic", "MNEMONIC", phrase)
    if acc["password"] != "" or rng.random() < 0.2:
        put("--password", "PASSWORD", acc["password"])
    if acc["sel"] is not None:
        if acc["sel"][0] == "index":
            put("--account-index", "ACCOUNT_INDEX", str(acc["sel"][1]))
        else:
            put("--hd-path", "HD_PATH", acc["sel"][1])
    return argv, env


def input_channel(rng, data, name="input"):
    """Returns (path argument, files dict, stdin_hex) delivering `data` through a file or stdin."""
    r = rng.random()
    if r < 0.4:
        return "-", {}, data.hex()
    if r < 0.5:
        return "/dev/stdin", {}, data.hex()  # a path that happens to be standard input
    if r < 0.65:
        # file names that need care: blanks, non-ASCII, a leading dash (given as ./-name), shell metacharacters, a newline
        name = rng.choice(["in put.dat", "\u00fcn\u00ef.json", "-dash.json", "a;b&c.bin", "x\ny.txt", "$HOME.txt", "--.json", "'q'.json", "-",
                           "caf\udce9.txt", "\udcff\udcfe.bin", "a\udc80b"])  # the last three are not valid UTF-8 (Latin-1 / stray bytes)
        if name == "-":
            name = "dash-only"
        return "./@FILE:%s@" % name if False else "@FILE:%s@" % name, {name: data.hex()}, None
    return "@FILE:%s@" % name, {name: data.hex()}, None
