"""Shared workload-generation helpers (all randomness comes from the rng passed in)."""
import hashlib

from .ref import bip39, secp

N = secp.N
PROFILES = ("release", "dev")


def lib_case(judge, req, x=None, profile="release"):
    return {"j": judge, "profile": profile, "steps": [{"lib": req}], "x": x or {}}


def both(case):
    """The same case against both build profiles."""
    for p in PROFILES:
        c = dict(case)
        c["profile"] = p
        yield c


def rand_bytes(rng, n):
    return bytes(rng.getrandbits(8) for _ in range(n)) if n else b""


def rand_entropy(rng, nwords):
    return rand_bytes(rng, bip39.ENT_BYTES[nwords])


def rand_words(rng, n):
    return [bip39.WORDS[rng.randrange(2048)] for _ in range(n)]


def complete_last(rng, prefix_words):
    """A final word that makes prefix+[word] a valid phrase (len(prefix)+1 must be a legal count)."""
    n = len(prefix_words) + 1
    cs = n // 3
    v = 0
    for w in prefix_words:
        v = (v << 11) | bip39.INDEX[w]
    rest = rng.getrandbits(11 - cs)
    ev = (v << (11 - cs)) | rest
    entropy = ev.to_bytes((n * 11 - cs) // 8, "big")
    c = hashlib.sha256(entropy).digest()[0] >> (8 - cs)
    return bip39.WORDS[(rest << cs) | c]


def rand_phrase_words(rng, n=None):
    n = n or rng.choice(bip39.LEGAL_COUNTS)
    return bip39.encode(rand_entropy(rng, n))


def messy_layout(rng, words, ws=bip39.ASCII_WS):
    """Same words, hostile ASCII whitespace layout."""
    out = []
    if rng.random() < 0.7:
        out.append("".join(rng.choice(ws) for _ in range(rng.randint(1, 4))))
    for i, w in enumerate(words):
        out.append(w)
        if i + 1 < len(words):
            out.append("".join(rng.choice(ws) for _ in range(rng.randint(1, 3))))
    if rng.random() < 0.7:
        out.append("".join(rng.choice(ws) for _ in range(rng.randint(1, 4))))
    return "".join(out)


def boundary_scalar(rng):
    """A secp256k1 scalar in [1, n-1], boundary-biased."""
    r = rng.random()
    if r < 0.25:
        return rng.choice([1, 2, 3, N - 3, N - 2, N - 1, 2**255, 2**128, 2**64 - 1, (N - 1) // 2, (N + 1) // 2])
    if r < 0.35:
        return rng.randrange(1, 1 << rng.choice([8, 16, 64, 128, 200]))
    return rng.randrange(1, N)


def boundary_u256(rng):
    r = rng.random()
    if r < 0.3:
        k = rng.randrange(0, 33)
        base = 1 << (8 * k)
        return max(0, min(2**256 - 1, base + rng.choice([-1, 0, 1])))
    if r < 0.4:
        return rng.choice([0, 1, 0x7f, 0x80, 0xff, 0x100, 2**255, 2**256 - 1, 2**64 - 1, 2**64, 2**53 - 1, 2**53])
    if r < 0.7:
        w = rng.randrange(1, 33)
        first = rng.choice([0x01, 0x7f, 0x80, 0xff, rng.randrange(1, 256)])
        return int.from_bytes(bytes([first]) + rand_bytes(rng, w - 1), "big")
    return rng.getrandbits(rng.choice([8, 16, 32, 64, 128, 256]))


UNICODE_WS = ["\u00a0", "\u2003", "\u3000", "\u2028", "\u0085", "\u1680", "\u202f"]
