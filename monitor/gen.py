"""Shared workload-generation helpers (all randomness comes from the rng passed in)."""
import hashlib

from .ref import bip39, secp

N = secp.N
PROFILES = ("release", "dev")


def lib_case(judge, req, x=None, profile="release"):
    return {"j": judge, "profile": profile, "steps": [{"lib": req}], "x": x or {}}


def both(case):
    """The same case against both build profiles."""
    for p in PROFILES:
        c = dict(case)
        c["profile"] = p
        yield c


def rand_bytes(rng, n):
    return bytes(rng.getrandbits(8) for _ in range(n)) if n else b""


def rand_entropy(rng, nwords):
    return rand_bytes(rng, bip39.ENT_BYTES[nwords])


def rand_words(rng, n):
    return [bip39.WORDS[rng.randrange(2048)] for _ in range(n)]


def complete_last(rng, prefix_words):
    """A final word that makes prefix+[word] a valid phrase (len(prefix)+1 must be a legal count)."""
    n = len(prefix_words) + 1
    cs = n // 3
    v = 0
    for w in prefix_words:
        v = (v << 11) | bip39.INDEX[w]
    rest = rng.getrandbits(11 - cs)
    ev = (v << (11 - cs)) | rest
    entropy = ev.to_bytes((n * 11 - cs) // 8, "big")
    c = hashlib.sha256(entropy).digest()[0] >> (8 - cs)
    return bip39.WORDS[(rest << cs) | c]


def rand_phrase_words(rng, n=None):
    n = n or rng.choice(bip39.LEGAL_COUNTS)
    return bip39.encode(rand_entropy(rng, n))


def messy_layout(rng, words, ws=bip39.ASCII_WS):
    """Same words, hostile ASCII whitespace layout."""
    out = []
    if rng.random() < 0.7:
        out.append("".join(rng.choice(ws) for _ in range(rng.randint(1, 4))))
    for i, w in enumerate(words):
        out.append(w)
        if i + 1 < len(words):
            out.append("".join(rng.choice(ws) for _ in range(rng.randint(1, 3))))
    if rng.random() < 0.7:
        out.append("".join(rng.choice(ws) for _ in range(rng.randint(1, 4))))
    return "".join(out)


def boundary_scalar(rng):
    """A secp256k1 scalar in [1, n-1], boundary-biased."""
    r = rng.random()
    if r < 0.08:
        return limb_value(rng) % (N - 1) + 1
    if r < 0.25:
        return rng.choice([1, 2, 3, N - 3, N - 2, N - 1, 2**255, 2**128, 2**64 - 1, (N - 1) // 2, (N + 1) // 2])
    if r < 0.35:
        return rng.randrange(1, 1 << rng.choice([8, 16, 64, 128, 200]))
    return rng.randrange(1, N)


def boundary_u256(rng):
    r = rng.random()
    if r < 0.06:
        return limb_value(rng)
    if r < 0.3:
        k = rng.randrange(0, 33)
        base = 1 << (8 * k)
        return max(0, min(2**256 - 1, base + rng.choice([-1, 0, 1])))
    if r < 0.4:
        return rng.choice([0, 1, 0x7f, 0x80, 0xff, 0x100, 2**255, 2**256 - 1, 2**64 - 1, 2**64, 2**53 - 1, 2**53])
    if r < 0.7:
        w = rng.randrange(1, 33)
        first = rng.choice([0x01, 0x7f, 0x80, 0xff, rng.randrange(1, 256)])
        return int.from_bytes(bytes([first]) + rand_bytes(rng, w - 1), "big")
    return rng.getrandbits(rng.choice([8, 16, 32, 64, 128, 256]))


# Key pairs found by a birthday search: the two addresses share their first 4 bytes (ADDR) / the two public keys share the first 4
# bytes of x (PUBX). Anything that identifies a key by a truncated address or public key confuses the two.
COLLIDING_KEYS = [
    (0x45b264d64ae9d7324889b6808555154800ddc4550b908b629581bf340760592d, 0x6c4467015832f2fe9728dcebfa8b599a121ea7d88f9dcaae109002a8c9f16edf),
    (0xe298cab5adfd8431e9947479a3025baa6b9a396113c9a2c0125f3580263baf68, 0x68600f0fc0c72712ab66226099aa8526ad14374d9fb0b62c744adc7cb6f786a9),
    (0x49ff73895a0511b9b12659a1c398e8252c3aefd8ba7b559ad3a2b0457039eeb2, 0x240d4a4dea70ffcbdba8cebd50dc214e1f69143add736a71dd64367f69793d4f),
    (0xcdf36c1f9ac9816b64e434b0be5dadebaac1aa8d6886080a09eb57baa6cd3159, 0x14060315e984313f05c37488aeac6aa0736d14942db46fefaa7ca28a1f9d3a72),
]


N_HI, N_LO = N >> 128, N & (2**128 - 1)
_LIMBS = [0, 1, 2, 2**63, 2**64 - 1, 2**64, 2**127 - 1, 2**127, 2**128 - 2, 2**128 - 1, N_HI, N_HI - 1, N_LO, N_LO - 1, N_LO + 1, N_HI >> 1, N_LO >> 1]


def limb_value(rng):
    """A 256-bit value whose two 128-bit halves (or four 64-bit quarters) sit on boundaries: hand-written multi-word arithmetic
    (compare, subtract-with-borrow, add-with-carry) goes wrong exactly there."""
    k = rng.randrange(6)
    if k == 0:
        return (rng.choice(_LIMBS) << 128) | rng.choice(_LIMBS)
    if k == 1:
        return ((2**128 - 1) << 128) | rng.choice([0, 1, N_LO - 1, N_LO, N_LO + 1, rng.randrange(N_LO), rng.randrange(N_LO, 2**128)])
    if k == 2:
        x = rng.getrandbits(128)
        return rng.choice([(x << 128) | x, (x << 128) | (x ^ (2**128 - 1)), (x << 128) | ((x + 1) % 2**128), x << 128, x])
    if k == 3:
        q = [rng.choice([0, 1, 2**63, 2**64 - 1, rng.getrandbits(64)]) for _ in range(4)]
        return (q[0] << 192) | (q[1] << 128) | (q[2] << 64) | q[3]
    if k == 4:
        return (N_HI << 128) | rng.choice([0, 1, N_LO - 2, N_LO - 1, N_LO, N_LO + 1, 2**128 - 1, rng.getrandbits(128)])
    return (rng.choice([N_HI - 1, N_HI + 1 if N_HI + 1 < 2**128 else N_HI, rng.getrandbits(128)]) << 128) | rng.choice([N_LO, N_LO - 1, 0, 2**128 - 1])


def swapped_halves(rng):
    """Pairs of distinct keys that collide under simple checksums of their words (sum / xor of halves or quarters, byte sum)."""
    a, b = rng.getrandbits(128) | 1, rng.getrandbits(128) | 2
    k = rng.randrange(4)
    if k == 0:
        x, y = (a << 128) | b, (b << 128) | a
    elif k == 1:
        s = rng.randrange(1, 2**64)
        x, y = s, s << 128
    elif k == 2:
        q = [rng.getrandbits(64) for _ in range(4)]
        x = (q[0] << 192) | (q[1] << 128) | (q[2] << 64) | q[3]
        y = (q[3] << 192) | (q[2] << 128) | (q[1] << 64) | q[0]
    else:
        x = (a << 128) | b
        y = int.from_bytes(x.to_bytes(32, "big")[::-1], "big")
    x, y = x % (N - 1) + 1, y % (N - 1) + 1
    return (x, y) if x != y else (x, x % (N - 1) + 1)


SPECIAL_ADDRESSES = ([i.to_bytes(20, "big") for i in range(0, 12)] + [b"\xff" * 20, bytes.fromhex("000000000000000000000000000000000000dead"),
                     bytes.fromhex("eeeeeeeeeeeeeeeeeeeeeeeeeeeeeeeeeeeeeeee"), bytes.fromhex("4e59b44847b379578588920ca78fbf26c0b4956c"),
                     bytes.fromhex("0000000000000000000000000000000000001000"), bytes.fromhex("ffffffffffffffffffffffffffffffffffffff00"),
                     (0x100).to_bytes(20, "big"), bytes.fromhex("c02aaa39b223fe8d0a0e5c4f27ead9083c756cc2")])

# Words of the surrounding ecosystem (units, Solidity keywords, JSON-RPC / library field names, EIP vocabulary). A lenient parser that
# "helpfully" understands one of them is exactly what the properties exclude.
VOCAB_UNITS = ["wei", "kwei", "mwei", "gwei", "szabo", "finney", "ether", "eth", "ETH", "Gwei", "e18", "k", "M"]
VOCAB_TYPE_WORDS = ["payable", "memory", "calldata", "storage", "indexed", "internal", "external", "view"]
VOCAB_TYPES = ["address payable", "tuple", "function", "mapping", "uint256 memory", "string calldata", "bytes memory", "fixed128x18", "ufixed", "enum", "contract",
               "struct", "bytes32 indexed", "address[] memory", "string[]storage", "uint", "int", "byte", "var", "bool payable", "hash", "bytes32hash"]
VOCAB_FIELD_NAMES = ["extensions", "fields", "eip712Domain", "domain", "nonce", "deadline", "owner", "spender", "value", "types", "primaryType", "message",
                     "chainid", "chain", "networkId", "verifier", "contract", "address", "signature", "permit", "EIP712Domain", "domainSeparator", "typeHash", "hash"]


def near_collisions(rng, nbytes=32):
    """Two distinct byte strings that agree on a long prefix, a long suffix, or everywhere but one bit."""
    a = rand_bytes(rng, nbytes)
    k = rng.randrange(4)
    if k == 0:
        b = a[:nbytes - 4] + rand_bytes(rng, 4)
    elif k == 1:
        b = rand_bytes(rng, 4) + a[4:]
    elif k == 2:
        i = rng.randrange(nbytes * 8)
        b = (int.from_bytes(a, "big") ^ (1 << i)).to_bytes(nbytes, "big")
    else:
        b = a[:8] + rand_bytes(rng, nbytes - 16) + a[-8:]
    return a, (b if b != a else bytes([a[0] ^ 1]) + a[1:])


UNICODE_WS = ["\u00a0", "\u2003", "\u3000", "\u2028", "\u0085", "\u1680", "\u202f"]


def respell_json_strings(rng, text, p_doc=0.12, p_char=0.3):
    """Re-spells characters inside the string literals (keys and values) of a VALID JSON text as \\uXXXX escapes. The text denotes
    the same document; what changes is how the parser hands the strings over (a string with an escape cannot be borrowed from
    the input, so serde visitors receive it through visit_str / visit_string instead of visit_borrowed_str)."""
    if rng.random() >= p_doc:
        return text
    out = []
    i, n = 0, len(text)
    while i < n:
        c = text[i]
        if c != '"':
            out.append(c)
            i += 1
            continue
        out.append(c)
        i += 1
        hot = rng.random() < 0.6          # not every literal of the document
        while i < n and text[i] != '"':
            if text[i] == "\\":
                out.append(text[i:i + 2])
                if text[i + 1] == "u":
                    out.append(text[i + 2:i + 6])
                    i += 6
                else:
                    i += 2
                continue
            ch = text[i]
            if hot and rng.random() < p_char:
                o = ord(ch)
                if o < 0x10000:
                    out.append("\\u%04x" % o if rng.random() < 0.5 else "\\u%04X" % o)
                else:
                    o -= 0x10000
                    out.append("\\u%04x\\u%04x" % (0xd800 + (o >> 10), 0xdc00 + (o & 0x3ff)))
            else:
                out.append(ch)
            i += 1
        if i < n:
            out.append('"')
            i += 1
    return "".join(out)
