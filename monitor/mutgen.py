"""Mutation workload for C17: byte-level and token-level mutations of valid inputs
for every parser and subcommand."""
import json

from . import cligen, tdgen, txgen
from .gen import complete_last, rand_bytes, rand_words
from .ref import bip39, eth, secp

N = secp.N
INTERESTING_NUMS = [0, 1, -1, 2**31 - 1, 2**31, 2**32 - 1, 2**32, 2**53, 2**63, 2**64 - 1, 2**64, 2**128, 2**255, 2**256 - 1, 2**256, N - 1, N, N + 1,
                    (2**256 - 37) // 2, (2**256 - 37) // 2 + 1, 10**80]
TOKENS = [b"", b"0", b"-", b"'", b"\"", b"\\", b"/", b"m/", b"0x", b"0X", b"{", b"}", b"[", b"]", b",", b":", b"null", b"true", b"1e999", b"-0",
          b"1.5", b"\x00", b"\xff", b"\xc3", b"\xe2\x82", b"\xf0\x9f\x98\x80", b" ", b"\n", b"\t", b"e", b"E+", b"''", b"//", b"[]", b"[0]",
          b"18446744073709551616", b"4294967296", b"2147483648", b"0x" + b"f" * 64, b"0x1" + b"0" * 64, b"uint256", b"bytes33", b"a" * 300]


def mutate_bytes(rng, s, other=b""):
    s = bytearray(s)
    for _ in range(rng.choice([1, 1, 1, 2, 3, 5])):
        k = rng.randrange(9)
        pos = rng.randrange(len(s) + 1)
        if k == 0 and s:
            s[pos % len(s)] ^= 1 << rng.randrange(8)
        elif k == 1:
            s[pos:pos] = bytes([rng.randrange(256)])
        elif k == 2 and s:
            del s[pos % len(s)]
        elif k == 3 and s:
            a = rng.randrange(len(s))
            b = min(len(s), a + rng.randint(1, 20))
            s[pos:pos] = s[a:b]
        elif k == 4:
            del s[pos:]
        elif k == 5 and other:
            a = rng.randrange(len(other))
            s[pos:pos] = other[a:a + rng.randint(1, 30)]
        elif k == 6:
            s[pos:pos] = rng.choice(TOKENS)
        elif k == 7:
            s[pos:pos] = str(rng.choice(INTERESTING_NUMS)).encode()
        elif k == 8 and s:
            a = rng.randrange(len(s))
            b = min(len(s), a + rng.randint(1, 8))
            s[a:b] = rng.choice(TOKENS)
    return bytes(s)


def text(b):
    return b.decode("utf-8", "ignore")


# ----------------------------------------------------------------- seeds
def seed_phrase(rng):
    n = rng.choice(bip39.LEGAL_COUNTS)
    w = rand_words(rng, n - 1)
    return " ".join(w + [complete_last(rng, w)])


def seed_path(rng):
    return eth.format_path([(rng.choice([0, 1, 44, 60, 2**31 - 1, rng.randrange(2**31)]), rng.random() < 0.5) for _ in range(rng.randint(1, 8))])


def seed_sig(rng):
    r, s, par, _ = secp.sign_rfc6979(rng.randrange(1, N), rand_bytes(rng, 31) + b"\x01")
    t = eth.sig_text(r, s, par)
    return t if rng.random() < 0.7 else t[2:]


def seed_tx(rng):
    tx = txgen.rand_tx(rng)
    tx["data"] = rand_bytes(rng, rng.choice([0, 4, 36, 100]))
    return txgen.render(rng, txgen.tokens_for(rng, tx))


def seed_td(rng):
    return tdgen.rand_document(rng, shape=rng.choice([None, "repeat", "recursive", "chain"]), depth=3)[0]


# ----------------------------------------------------------------- token-level hostile inputs
def hostile_phrase(rng):
    k = rng.randrange(8)
    if k == 0:
        return " ".join(rand_words(rng, rng.randrange(0, 41)))
    if k == 1:
        return " ".join([bip39.WORDS[rng.choice([0, 2047])]] * rng.randrange(0, 41))
    if k == 2:
        return (" ".join(rand_words(rng, rng.choice([12, 24]))) + " ") * rng.choice([2, 10, 100])
    if k == 3:
        return "".join(rng.choice(bip39.ASCII_WS + " 　") for _ in range(rng.randrange(0, 50)))
    if k == 4:
        return " ".join("x" * rng.choice([1, 50, 5000]) for _ in range(rng.choice([12, 15, 24])))
    if k == 5:
        w = seed_phrase(rng).split()
        w[rng.randrange(len(w))] = rng.choice(["", "é", "\U0001f600", "ZOO", "zoó", "0", "-1", "\x7f"])
        return " ".join(w)
    if k == 6:
        return "　".join(seed_phrase(rng).split())
    return text(mutate_bytes(rng, seed_phrase(rng).encode()))


def hostile_path(rng):
    k = rng.randrange(6)
    nums = [str(x) for x in INTERESTING_NUMS] + ["00", "+1", "1e3", "0x1", ""]
    if k == 0:
        return "m/" + "/".join(rng.choice(nums) + rng.choice(["", "'", "''", "h"]) for _ in range(rng.randrange(0, 12)))
    if k == 1:
        return "m" + "/0'" * rng.choice([0, 1, 100, 1000, 10000])
    if k == 2:
        return rng.choice(["", "m", "/", "m/", "//", "M/0", "m/0/", "m//", "'", "m/'"])
    if k == 3:
        return "m/" + "9" * rng.choice([9, 10, 11, 19, 20, 21, 40, 1000])
    return text(mutate_bytes(rng, seed_path(rng).encode()))


def hostile_sig(rng):
    k = rng.randrange(6)
    if k == 5:
        return multibyte_hexlike(rng, rng.choice([130, 132, 131]))
    if k == 0:
        r, s = rng.choice([0, 1, N - 1, N, N + 1, 2**256 - 1]), rng.choice([0, 1, N - 1, N, N + 1, 2**256 - 1, secp.HALF_N + 1])
        return rng.choice(["0x", ""]) + "%064x%064x%02x" % (r, s, rng.choice([0, 1, 26, 27, 28, 29, 35, 36, 255]))
    if k == 1:
        return rng.choice(["0x", ""]) + "".join(rng.choice("0123456789abcdefABCDEFg ") for _ in range(rng.randrange(0, 141)))
    if k == 2:
        return "0x" + "é" * rng.choice([1, 65, 130]) + "1b"
    return text(mutate_bytes(rng, seed_sig(rng).encode()))


def _num_token(rng):
    v = rng.choice(INTERESTING_NUMS)
    return rng.choice([str(v), '"%d"' % v, '"0x%x"' % abs(v), "%d.0" % v, "%de0" % v, "%d.5" % v, '"-0x%x"' % abs(v), "1e%d" % rng.choice([-400, -1, 0, 20, 77, 78, 400]),
                       '"%s"' % ("9" * rng.choice([77, 78, 79, 200])), "-0", "-0.0", '""', '"0x"', "null", "true", "[]", "{}", '"0b1"', '"0o7"', '"+1"'])


def multibyte_hexlike(rng, nbytes):
    """A string of exactly nbytes UTF-8 bytes that looks like prefixed hex but has a multi-byte character straddling one of the first
    offsets (where parsers strip or split the prefix) or sitting in the digits."""
    ch = rng.choice(["\u00e9", "\u20ac", "\U0001f600", "\u0301"])
    w = len(ch.encode())
    pos = rng.choice([0, 1, 2, 3, nbytes - w, rng.randrange(0, max(1, nbytes - w))])
    pos = min(pos, nbytes - w)
    base = ("0x" + "0" * nbytes)[:nbytes]
    return base[:pos] + ch + base[pos + w:]


def hostile_tx(rng):
    k = rng.randrange(7)
    if k == 6:
        tx = txgen.rand_tx(rng, rng.choice([txgen.T2930, txgen.T1559]))
        toks = txgen.tokens_for(rng, tx)
        f = rng.choice(["key", "addr", "to", "data"])
        if f == "key":
            toks["accessList"] = '[["0x%s",[%s]]]' % ("11" * 20, json.dumps(multibyte_hexlike(rng, 66), ensure_ascii=False))
        elif f == "addr":
            toks["accessList"] = '[[%s,[]]]' % json.dumps(multibyte_hexlike(rng, 42), ensure_ascii=False)
        elif f == "to":
            toks["to"] = json.dumps(multibyte_hexlike(rng, 42), ensure_ascii=False)
        else:
            toks["data"] = json.dumps(multibyte_hexlike(rng, rng.choice([2, 3, 4, 10, 66])), ensure_ascii=False)
        return txgen.render(rng, toks)
    if k <= 1:
        tx = txgen.rand_tx(rng)
        toks = txgen.tokens_for(rng, tx)
        for _ in range(rng.randint(1, 3)):
            f = rng.choice(list(toks))
            toks[f] = _num_token(rng) if rng.random() < 0.7 else rng.choice(['"0x"', '"0xzz"', '"0x1"', '"abc"', "[[]]", '[["0x",[]]]', '[[1,2]]', "5"])
        return txgen.render(rng, toks)
    if k == 2:
        depth = rng.choice([1, 10, 64, 127, 128, 129, 200, 1000])
        return rng.choice(['{"nonce":', '{"accessList":', ""]) + "[" * depth + "]" * depth + rng.choice(["}", ""])
    if k == 3:
        return rng.choice(["", "{", "}", "[]", "null", "1", '"x"', "{}", '{"nonce":1}', '{"a":' * 100 + "1" + "}" * 100, "﻿{}", '{"nonce":1,"nonce":2}'])
    if k == 4:
        tx = txgen.rand_tx(rng, txgen.T1559)
        toks = txgen.tokens_for(rng, tx)
        toks["data"] = '"0x%s"' % ("ab" * rng.choice([0, 55, 56, 65536]))
        toks["accessList"] = "[" + ",".join('["0x%s",[%s]]' % ("11" * 20, ",".join('"0x%s"' % ("22" * 32) for _ in range(rng.choice([0, 1, 100])))) for _ in range(rng.choice([0, 1, 50]))) + "]"
        return txgen.render(rng, toks)
    return text(mutate_bytes(rng, seed_tx(rng).encode(), seed_td(rng).encode()))


def hostile_td(rng):
    k = rng.randrange(8)
    dom = '"EIP712Domain":[{"name":"name","type":"string"}]'
    if k == 0:
        d = rng.choice([1, 8, 32, 63, 64])
        ts = rng.choice(["uint8", "P", "bytes", "Q", "string"]) + "".join(rng.choice(["[]", "[0]", "[1]"]) for _ in range(d))
        val = "[" * d + "]" * d if rng.random() < 0.5 else "[]"
        return '{"types":{%s,"P":[{"name":"v","type":"%s"}],"Q":[]},"primaryType":"P","domain":{"name":"x"},"message":{"v":%s}}' % (dom, ts, val)
    if k == 1:
        ts = rng.choice(["uint0", "uint7", "uint264", "uint4294967296", "uint18446744073709551616", "bytes0", "bytes33", "bytes4294967297", "int", "uint", "uint08",
                         "bytes01", "uint256[18446744073709551615]", "uint8[18446744073709551616]", "uint8[-1]", "uint8[", "uint8]", "[]", "", "uint8[1][", " uint8",
                         "uint8 ", "P[]", "P", "EIP712Domain", "EIP712Domain[]", "²", "uint٢٥٦", "bytes٣٢"])
        val = rng.choice(["1", "[]", '"0x00"', "{}", "null", '"1"', "[[1]]", '{"v":1}'])
        return '{"types":{%s,"P":[{"name":"v","type":%s}]},"primaryType":"P","domain":{"name":"x"},"message":{"v":%s}}' % (dom, json.dumps(ts), val)
    if k == 2:
        # recursive types with nested values
        d = rng.choice([1, 10, 60, 100, 126])
        val = '{"n":[' * d + '{"n":[]}' + "]}" * d
        return '{"types":{%s,"P":[{"name":"n","type":"P[]"}]},"primaryType":"P","domain":{"name":"x"},"message":%s}' % (dom, val)
    if k == 3:
        # direct (non-array) self reference / cycles in the type graph
        return ('{"types":{%s,"P":[{"name":"q","type":"Q"}],"Q":[{"name":"p","type":"P%s"}]},"primaryType":"P","domain":{"name":"x"},'
                '"message":{"q":{"p":%s}}}' % (dom, rng.choice(["", "[]", "[1]"]), rng.choice(["{}", "[]", '{"q":{"p":[]}}', "null"])))
    if k == 4:
        text_, info = tdgen.rand_document(rng, depth=3)
        return text_.replace('"primaryType":', rng.choice(['"primaryType":1,"x":', '"primarytype":', '"primaryType":null,"y":']), 1)
    if k == 5:
        return rng.choice(["", "{}", "[]", "null", '{"types":{}}', '{"types":{},"primaryType":"","domain":{},"message":{}}',
                           '{"types":{"EIP712Domain":[]},"primaryType":"EIP712Domain","domain":{},"message":{}}',
                           '{"types":{"EIP712Domain":[{"name":"name","type":"string"}]},"primaryType":"EIP712Domain","domain":{"name":"a"},"message":{"name":"b"}}',
                           '{"types":{"EIP712Domain":[{"name":"name","type":"string"}],"":[]},"primaryType":"","domain":{"name":"a"},"message":{}}',
                           '{"types":[],"primaryType":"P","domain":{},"message":{}}', '{"types":{"P":[{"name":1,"type":2}]},"primaryType":"P","domain":{},"message":{}}'])
    if k == 6:
        text_, info = tdgen.rand_document(rng, depth=3)
        b = text_.encode()
        # replace one numeric-looking token
        return text(mutate_bytes(rng, b))
    return text(mutate_bytes(rng, seed_td(rng).encode(), seed_tx(rng).encode()))


# ----------------------------------------------------------------- CLI
def hostile_cli(rng, acc_words):
    """Returns a cli spec dict exercising one input channel with hostile content."""
    mn = " ".join(acc_words)
    k = rng.randrange(16)
    env = {"MNEMONIC": mn}
    argv = None
    files, stdin_hex = {}, None

    def via(data, name="f"):
        nonlocal files, stdin_hex
        if rng.random() < 0.5:
            stdin_hex = data.hex()
            return "-"
        files = {name: data.hex()}
        return "@FILE:%s@" % name

    if k == 0:
        ph = hostile_phrase(rng).replace("\x00", "")
        if rng.random() < 0.5:
            env["MNEMONIC"] = ph
            argv = [rng.choice(["address", "export", "public-key"])]
        else:
            argv = [rng.choice(["address", "export", "public-key"]), "--mnemonic=" + ph]
    elif k == 1:
        argv = ["address", "--hd-path=" + hostile_path(rng).replace("\x00", "")]
    elif k == 2:
        v = rng.choice([str(x) for x in INTERESTING_NUMS] + ["", "abc", "1.5", "+1", "0x1", " 1", "1e3", "-0", "９"])
        argv = [rng.choice(["address", "export", "public-key"]), "--account-index=" + v]
    elif k == 3:
        argv = ["hash", "transaction", via(seed_tx(rng).encode(), "tx.json"), "--signature=" + hostile_sig(rng).replace("\x00", "")]
    elif k == 4:
        d = rng.choice(["", "0x", "0x" + "00" * 31, "0x" + "00" * 33, "zz" * 32, "0x" + "é" * 32, "é" * 64, "0x" + "ff" * 32, "ff" * 32, "0X" + "11" * 32,
                        "%064x" % N, text(mutate_bytes(rng, ("0x" + "ab" * 32).encode()))]).replace("\x00", "")
        argv = ["sign", "raw", "--", d] if d.startswith("-") else ["sign", "raw", d]
    elif k == 5:
        argv = ["sign", "transaction", via(hostile_tx(rng).encode("utf-8", "surrogatepass") if False else hostile_tx(rng).encode(), "tx.json")]
        if rng.random() < 0.5:
            argv.append("--allow-missing-relay-protection")
        if rng.random() < 0.3:
            argv.append("--signature-only")
    elif k == 6:
        argv = ["hash", "transaction", via(mutate_bytes(rng, seed_tx(rng).encode()), "tx.json")]
    elif k == 7:
        argv = [rng.choice(["sign", "hash"]), "typeddata", via(hostile_td(rng).encode(), "td.json")]
        if argv[0] == "hash" and rng.random() < 0.4:
            argv.append("--message-hash")
    elif k == 8:
        argv = ["hash", "typeddata", via(mutate_bytes(rng, seed_td(rng).encode()), "td.json")]
    elif k == 9:
        data = rng.choice([b"", b"0x", b"0", b"0x0", b"zz", b"0x" + b"ab" * 70000, b"\xff\xfe", b"0x\xc3\xa9", b" \n\t", b"0x 0 0", "1\u00e9".encode(), "a\u20ac0".encode(), "\u20ac".encode(), "0\U0001f600".encode(), "\u00e9\u00e9".encode(),
                           multibyte_hexlike(rng, rng.choice([2, 3, 4, 5, 8])).encode(), multibyte_hexlike(rng, rng.choice([2, 3, 4, 5, 8]))[2:].encode() or b"\xc3\xa9", mutate_bytes(rng, b"0x" + rand_bytes(rng, 20).hex().encode())])
        argv = ["hex", rng.choice(["decode", "decode", "encode"]), via(data, "h")]
    elif k == 10:
        p = rng.choice(["", "0x", "0", "x", "0xg", "0xA", "0xa", "0xAb", "0xF", "0x0f", "0xfF", "1", "0xé", "0x-", "0X1", "0x1 ", " 0x1", "0x" + "a" * 41 + "g"])
        argv = ["new", "--vanity-prefix=" + p, "-j", str(rng.choice([0, 1, 2, 3, 8, 16, 33, 64]))]
    elif k == 11:
        v = rng.choice([str(x) for x in range(0, 41)] + ["-1", "", "abc", "12.0", "18446744073709551615", "18446744073709551616", "+12", "0x0c", " 12"])
        argv = ["new", "--length=" + v]
        if rng.random() < 0.3:
            argv += ["--vanity-prefix", "0x" + rng.choice("0123456789abcdefABCDEF"), "-j", str(rng.choice([0, 1, 4, 64]))]
    elif k == 12:
        v = rng.choice([str(x) for x in INTERESTING_NUMS] + ["", "x"])
        argv = ["new", "--vanity-prefix", "0x" + rng.choice("0123456789abcdefABCDEF"), "--vanity-account-index=" + v, "-j", str(rng.choice([0, 1, 2, 16]))]
    elif k == 13:
        argv = ["new", "--vanity-prefix", "0x" + rng.choice("0123456789abcdefABCDEF"), "--vanity-hd-path=" + hostile_path(rng).replace("\x00", ""),
                "-j", str(rng.choice([0, 1, 2, 16]))]
    elif k == 14:
        # invalid UTF-8 in the environment / arguments, unknown flags, missing operands
        env[rng.choice(["MNEMONIC", "PASSWORD", "ACCOUNT_INDEX", "HD_PATH"])] = rng.choice([b"\xff\xfe", b"\xc3", b"abandon \xed\xa0\x80", b""])
        argv = [rng.choice(["address", "export", "public-key", "sign"])]
    else:
        argv = rng.choice([[], ["--help"], ["--version"], ["sign"], ["hash"], ["hex"], ["new", "--language", "klingon"], ["new", "--language", "ENGLISH"],
                           ["address", "--password", "é\U0001f600" * 50], ["sign", "message"], ["hash", "data", "/nonexistent/file"], ["hash", "data", "/"],
                           ["sign", "message", "/dev/null"], ["address", "--bogus"], ["hex", "decode", "/dev/null"], ["hash", "message", "-"]])
    return {"argv": argv, "env": env, "files": files, "stdin_hex": stdin_hex}
