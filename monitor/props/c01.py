"""C01 — mnemonic phrases and entropy are in exact BIP-39 correspondence."""
from ..gen import PROFILES, both, complete_last, lib_case, messy_layout, rand_bytes, rand_words
from ..ref import bip39
from ..run.core import V

ID = "C01"
LEVEL = "exploration"
NEEDS = {"lib": ["dev", "release"], "cli": ["dev", "release"]}
RULE = ("mnemonic.parse events judged by an independent BIP-39 decoder; complete sweeps: every word x every position "
        "for the five legal lengths, all 2048 final words for every word count 1..40, counts 0..40; sampled: entropy "
        "values, unknown words, whitespace layouts; word-lookup probe: 32 M (quick) / 640 M (thorough) generated tokens (random 3-8 letters, "
        "1-2 edits of list words) through Wordlist::search and through whole phrases, every accepted token checked against the pinned list; whole phrases wrapped in quotes / brackets / punctuation; CLI events: a sample of all classes through `address` with the phrase by --mnemonic or MNEMONIC. distinct = distinct (phrase text, profile); non-trivial = the "
        "oracle classified the phrase and the accept/reject decision and printed form were compared")
ILLEGAL = [n for n in range(0, 41) if n not in bip39.LEGAL_COUNTS]
REQUIRED = (["accept-%d" % n for n in bip39.LEGAL_COUNTS] + ["reject-count-%d" % n for n in ILLEGAL]
            + ["reject-checksum-%d" % n for n in bip39.LEGAL_COUNTS] + ["reject-word", "layout-messy-accept", "layout-unicode-whitespace-accept",
                                                                           "lastword-valid-%d" % 12, "lastword-valid-24",
                                                                           "opt-wordscan-search-random", "opt-wordscan-search-near", "opt-wordscan-phrase-near", "opt-wordscan-list-word-hit",
             "cli-accept", "cli-reject-word", "cli-reject-count", "cli-reject-checksum"])


def split_ascii(phrase):
    """Words of a phrase. "Whitespace" is the Unicode White_Space property (the name is historical)."""
    return bip39.split_ws(phrase)


_LIG = [("ffi", "\ufb03"), ("ffl", "\ufb04"), ("ff", "\ufb00"), ("fi", "\ufb01"), ("fl", "\ufb02"), ("st", "\ufb06")]


def compat_variant(rng, w):
    """A token that is NOT the list word w but becomes w under Unicode compatibility normalisation / case folding: full-width
    letters, ligatures, mathematical alphanumerics, small capitals. It must be refused as an unknown word."""
    k = rng.randrange(5)
    if k == 0:
        return "".join(chr(0xff41 + ord(c) - 97) for c in w)  # full-width
    if k == 1:
        j = rng.randrange(len(w))
        return w[:j] + chr(0xff41 + ord(w[j]) - 97) + w[j + 1:]
    if k == 2:
        for a, b in _LIG:
            if a in w:
                return w.replace(a, b, 1)
        return w[:-1] + chr(0x1d41a + ord(w[-1]) - 97)
    if k == 3:
        return "".join(chr(0x1d41a + ord(c) - 97) for c in w)  # mathematical bold
    j = rng.randrange(len(w))
    return w[:j] + {"a": "\u00aa", "o": "\u00ba", "s": "\u017f", "i": "\u2170", "c": "\u217d", "d": "\u217e", "m": "\u217f", "l": "\u217c", "x": "\u2179",
                    "v": "\u2174"}.get(w[j], chr(0x24d0 + ord(w[j]) - 97)) + w[j + 1:]


def judge_parse(case, obs):
    o = obs[0]
    x = case["x"]
    phrase = case["steps"][0]["lib"]["phrase"]
    v = V()
    words = split_ascii(phrase)
    n = len(words)
    cls = bip39.classify(words)
    tag = x.get("tag", "")
    if "ok" not in o and "err" not in o:
        return v  # abnormal: handled by the engine, signature carries x.cls
    if cls == "ok":
        if "ok" not in o:
            return v.bad("C01/valid-%d/rejected" % n, "valid %d-word phrase rejected: %s" % (n, o.get("err")))
        r = o["ok"]
        want = " ".join(words)
        if r["printed"] != want or r["display"] != want:
            v.bad("C01/valid-%d/printed" % n, "printed form %r differs from the words joined by single spaces" % r["printed"][:120])
        if r["length"] != n:
            v.bad("C01/valid-%d/length" % n, "reported length %s for a %d-word phrase" % (r["length"], n))
        if r["reparse"].get("ok") != want:
            v.bad("C01/valid-%d/reparse" % n, "printed phrase does not parse back to itself: %s" % (r["reparse"],))
        v.bucket("accept-%d" % n)
        if tag:
            v.bucket("%s-valid-%d" % (tag, n))
        if phrase != want:
            v.bucket("layout-messy-accept")
            if any(ord(c) > 127 for c in phrase):
                v.bucket("layout-unicode-whitespace-accept")
    else:
        if "ok" in o:
            if cls == "count":
                return v.bad("C01/count-%d/accepted" % n, "%d-word phrase accepted (printed %r)" % (n, o["ok"]["printed"][:100]))
            return v.bad("C01/%s-%d/accepted" % (cls, n), "invalid phrase (%s) accepted" % cls)
        if cls == "count":
            v.bucket("reject-count-%d" % n)
        elif cls == "word":
            v.bucket("reject-word")
        else:
            v.bucket("reject-checksum-%d" % n)
        if tag:
            v.bucket("%s-invalid" % tag)
    return v


def judge_scan(case, obs):
    """High-volume lookup probe: every token the tool's word lookup accepts must be exactly the list word at that index;
    every phrase accepted with a substituted token must have a list word there and decode under the reference."""
    o = obs[0]
    v = V()
    req = case["steps"][0]["lib"]
    if o.get("unavailable"):
        return v.bucket("opt-unavailable")
    if "ok" not in o:
        if "err" in o:
            v.bad("C01/wordscan/error", "scan failed: %s" % o["err"])
        return v
    acc = o["ok"]["accepted"]
    for a in acc:
        t = a["token"]
        if req["level"] == "search":
            if bip39.INDEX.get(t) != a["index"]:
                v.bad("C01/wordscan/non-list-token-accepted", "word lookup maps %r to index %s (list word there: %s); %r %s" % (
                    t, a["index"], bip39.WORDS[a["index"]] if 0 <= a["index"] < 2048 else "-", t, "is word %d" % bip39.INDEX[t] if t in bip39.INDEX else "is not a list word"))
            else:
                v.bucket("opt-wordscan-list-word-hit")
        else:
            if t not in bip39.INDEX:
                v.bad("C01/wordscan/phrase-with-non-list-token-accepted", "a phrase whose word %d is %r (not a list word) was accepted and printed as %r" % (a["pos"], t, a["printed"][:80]))
            else:
                words = req["phrase"].split(" ")
                words[a["pos"]] = t
                if bip39.classify(words) != "ok" or a["printed"] != " ".join(words):
                    v.bad("C01/wordscan/phrase-accept-mismatch", "phrase with %r at %d accepted/printed differently from the reference" % (t, a["pos"]))
                v.bucket("opt-wordscan-phrase-hit")
    v.bucket("opt-wordscan-%s-%s" % (req["level"], req["mode"]))
    for _ in range(o["ok"]["tested"] // 62500):
        v.bucket("opt-wordscan-tokens-x62500")
    return v


_ADDR = {}


def judge_cli(case, obs):
    """The same phrases through the command line (`address` with the phrase by flag or environment variable)."""
    from ..ref import eth
    from ..run.core import abnormal
    o = obs[0]
    v = V()
    if abnormal(o) or "exit" not in o:
        return v
    phrase = case["x"]["phrase"]
    words = split_ascii(phrase)
    cls = bip39.classify(words)
    if cls == "ok":
        if o["exit"] != 0:
            return v.bad("C01/cli/valid-%d/rejected" % len(words), "`address` refused a valid phrase: %s" % o["stderr"][-150:])
        key = " ".join(words)
        if key not in _ADDR:
            _ADDR[key] = eth.address_of_key(eth.bip32_derive(bip39.seed(words, ""), eth.default_path(0)))
        if o["stdout"].strip() != _ADDR[key]:
            return v.bad("C01/cli/valid-%d/other-account" % len(words), "`address` printed %s for a valid phrase, reference %s" % (o["stdout"].strip()[:60], _ADDR[key]))
        return v.bucket("cli-accept")
    if o["exit"] == 0 or o["stdout"].strip():
        return v.bad("C01/cli/%s-%d/accepted" % (cls, len(words)), "`address` printed %r (exit %d) for an invalid phrase (%s) given by %s" % (
            o["stdout"].strip()[:60], o["exit"], cls, case["x"]["channel"]))
    return v.bucket("cli-reject-" + cls)


JUDGES = {"parse": judge_parse, "scan": judge_scan, "cli": judge_cli}


def _case(phrase, cls, tag="", **x):
    d = {"cls": cls, "tag": tag}
    d.update(x)
    return lib_case("parse", {"op": "mnemonic.parse", "phrase": phrase}, d)


def shards(tier, seed):
    out = []
    T = tier == "thorough"
    out.append({"name": "entropy-patterns", "count": 40000 if T else 1200})
    for n in bip39.LEGAL_COUNTS:
        # position sweep split by position groups to balance
        for grp in range(4):
            out.append({"name": "pos-sweep-%d-%d" % (n, grp), "n": n, "grp": grp, "reps": 20 if T else 2,
                        "exhaustive": "every word x every position, %d-word phrases" % n})
    for lo in range(1, 41, 5):
        out.append({"name": "lastword-%d" % lo, "counts": list(range(lo, min(lo + 5, 41))), "prefixes": 40 if T else 2,
                    "exhaustive": "all 2048 final words for word counts %d..%d" % (lo, min(lo + 4, 40))})
    out.append({"name": "counts", "reps": 400 if T else 12, "exhaustive": "word counts 0..40"})
    out.append({"name": "unknown-words", "count": 40000 if T else 1200})
    # high-volume probe of the word lookup itself (32 M tokens quick, 640 M thorough): a lookup that confuses tokens only rarely
    # (a 32-bit digest, a prefix table) cannot be seen through whole phrases, where the checksum masks 15 of 16 confusions
    for i in range(16):
        out.append({"name": "wordscan-%d" % i, "i": i, "requests": 160 if T else 8, "tokens": 250000})
    out.append({"name": "layouts", "count": 40000 if T else 1000})
    out += [{"name": "cli-surface-%d" % i, "part": i} for i in range(8)]
    return out


def gen(shard, rng, tier):
    name = shard["name"]
    if name.startswith("cli-surface"):
        T = tier == "thorough"
        subs = [{"name": "unknown-words", "count": 300 if T else 24}, {"name": "counts", "reps": 2 if T else 1}, {"name": "layouts", "count": 200 if T else 16},
                {"name": "entropy-patterns", "count": 200 if T else 12}]
        k = 0
        seen = set()
        for sub in subs:
            for c in gen(sub, rng, tier):
                phrase = c["steps"][0]["lib"].get("phrase")
                if phrase is None or phrase in seen or "\x00" in phrase:
                    continue
                seen.add(phrase)
                try:
                    if len(phrase.encode("utf-8")) > 100000:
                        continue  # one argument / environment string is limited to 128 KiB by the kernel
                except UnicodeEncodeError:
                    continue
                k += 1
                if k % 8 != shard["part"]:
                    continue
                by_env = (k // 8) % 2 == 0
                spec = {"argv": ["address"] if by_env else ["address", "--mnemonic=" + phrase], "env": {"MNEMONIC": phrase} if by_env else {}}
                yield {"j": "cli", "profile": "dev" if (k // 16) % 2 else "release", "steps": [{"cli": spec}],
                       "x": {"cls": "cli", "phrase": phrase, "channel": "MNEMONIC" if by_env else "--mnemonic"}}
        return
    if name.startswith("wordscan-"):
        for k in range(shard["requests"]):
            level = "phrase" if k % 4 == 3 else "search"
            req = {"op": "wordlist.scan", "seed": rng.getrandbits(63), "count": shard["tokens"] // (4 if level == "phrase" else 1),
                   "mode": "near" if k % 2 else "random", "level": level}
            if level == "phrase":
                n = rng.choice(bip39.LEGAL_COUNTS)
                w = rand_words(rng, n - 1)
                req["phrase"] = " ".join(w + [complete_last(rng, w)])
            c = lib_case("scan", req, {"cls": "wordscan"}, "release" if k % 8 else "dev")
            c["steps"][0]["cpu_limit"] = 300
            yield c
        return
    if name == "entropy-patterns":
        for n in bip39.LEGAL_COUNTS:
            nb = bip39.ENT_BYTES[n]
            ents = [bytes(nb), b"\xff" * nb, bytes(range(nb)), bytes(range(255, 255 - nb, -1)), b"\x80" + bytes(nb - 1),
                    bytes(nb - 1) + b"\x01", b"\x7f" * nb, b"\x55" * nb, b"\xaa" * nb]
            for bit in range(nb * 8):
                ents.append((1 << bit).to_bytes(nb, "big"))
                if bit % 4 == 0:
                    ents.append(((1 << (nb * 8)) - 1 - (1 << bit)).to_bytes(nb, "big"))
            for _ in range(shard["count"]):
                ents.append(rand_bytes(rng, nb))
            for e in ents:
                w = bip39.encode(e)
                yield from both(_case(" ".join(w), "valid-%d" % n, "entropy"))
                # and its checksum neighbours: flip one entropy-bearing word -> almost surely bad checksum
                if rng.random() < 0.3:
                    w2 = list(w)
                    i = rng.randrange(n)
                    w2[i] = bip39.WORDS[(bip39.INDEX[w2[i]] ^ (1 << rng.randrange(11))) % 2048]
                    yield from both(_case(" ".join(w2), "mutated-%d" % n, "entropy"))
    elif name.startswith("pos-sweep"):
        n = shard["n"]
        positions = [p for p in range(n) if p % 4 == shard["grp"]]
        for _ in range(shard["reps"]):
            for p in positions:
                for wi in range(2048):
                    if p == n - 1:
                        words = rand_words(rng, n - 1) + [bip39.WORDS[wi]]  # oracle decides validity
                    else:
                        words = rand_words(rng, n - 1)
                        words[p] = bip39.WORDS[wi]
                        words = words + [complete_last(rng, words)]
                    yield _case(" ".join(words), "sweep-%d" % n, "possweep", p=p)
    elif name.startswith("lastword"):
        for n in shard["counts"]:
            for _ in range(shard["prefixes"]):
                prefix = rand_words(rng, n - 1)
                for wi in range(2048):
                    yield _case(" ".join(prefix + [bip39.WORDS[wi]]), "count-%d" % n, "lastword")
                # the dev profile on a sample (the release sweep above is complete)
                for wi in range(0, 2048, 16):
                    c = _case(" ".join(prefix + [bip39.WORDS[wi]]), "count-%d" % n, "lastword")
                    c["profile"] = "dev"
                    yield c
    elif name == "counts":
        # word counts 0..40, and counts that are legal modulo 2^8 / 2^16 (a count narrowed before it is checked)
        for n in list(range(0, 41)) + [256 + 12, 256 + 24, 512 + 15, 65536 + 12, 65536 + 24]:
            for _ in range(shard["reps"] if n <= 40 else 1):
                words = rand_words(rng, n)
                if n in bip39.LEGAL_COUNTS and rng.random() < 0.5:
                    words = words[:-1] + [complete_last(rng, words[:-1])]
                yield from both(_case(" ".join(words), "count-%d" % n, "counts"))
                yield from both(_case(messy_layout(rng, words), "count-%d" % n, "counts"))
        for extra in ("", " ", "\n", "\t \n"):
            yield from both(_case(extra, "count-0", "counts"))
    elif name == "unknown-words":
        # a whole valid phrase wrapped or terminated the way it arrives from a shell, an .env file or a document: the first / last
        # token is then not a list word
        for deco in ('"%s"', "'%s'", '"%s', "%s'", "`%s`", "%s.", "%s,", "(%s)", "[%s]", "<%s>", "%s;", "mnemonic: %s", "%s\\n", "\u201c%s\u201d", '""%s""', "=%s"):
            for n in bip39.LEGAL_COUNTS:
                words = rand_words(rng, n - 1)
                words = words + [complete_last(rng, words)]
                yield from both(_case(deco % " ".join(words), "word-%d" % n, "decorated"))
        for _ in range(shard["count"]):
            n = rng.choice(bip39.LEGAL_COUNTS)
            words = rand_words(rng, n - 1)
            words = words + [complete_last(rng, words)]
            i = rng.randrange(n)
            w = words[i]
            k = rng.randrange(12)
            if k == 9:
                bad = compat_variant(rng, w)
            elif k == 10:
                # invisible characters that are NOT white space glued to an otherwise valid word (BOM, zero-width, soft hyphen, joiners)
                inv = rng.choice(["\ufeff", "\u200b", "\u200c", "\u200d", "\u2060", "\u00ad", "\u180e", "\u034f", "\ufe0f"])
                j = rng.choice([0, 0, len(w), rng.randrange(len(w) + 1)])
                bad = w[:j] + inv + w[j:]
                if rng.random() < 0.4:
                    i = 0  # in particular in front of the very first word (a byte order mark)
                    w = words[0]
                    bad = inv + w
            elif k == 11:
                bad = rng.choice([w + ".", w + ",", "\"" + w + "\"", w + ";", "(" + w + ")", w + "\\n"])
            elif k == 0:
                bad = w.upper()
            elif k == 1:
                bad = w.capitalize()
            elif k == 2:
                bad = w[:4] if len(w) > 4 else w + "x"
            elif k == 3:
                j = rng.randrange(len(w))
                bad = w[:j] + rng.choice("abcdefghijklmnopqrstuvwxyz") + w[j + 1:]
            elif k == 4:
                bad = w + rng.choice("sx1-")
            elif k == 5:
                bad = rng.choice(["é" + w, w + "́", "ｚｏｏ", "abandoñ", "zoo​", "élève"])
            elif k == 6:
                bad = w[1:] if len(w) > 3 else "q" + w
            elif k == 7:
                bad = rng.choice(["", "0", "-", "abandon,", ",", "'about'", "\x00", "a" * 300])
                if bad == "":
                    bad = "zz"
            else:
                bad = str(bip39.INDEX[w])
            words[i] = bad
            yield from both(_case(" ".join(words), "unknown-word", "unknown"))
    elif name == "layouts":
        # valid phrases padded with a great deal of white space (beyond 64 KiB and 1 MiB): the layout is irrelevant
        for n in bip39.LEGAL_COUNTS:
            words = rand_words(rng, n - 1)
            words = words + [complete_last(rng, words)]
            for pad in (70000, 1 << 20):
                ws = rng.choice([" ", "\n", " \t"])
                k = rng.randrange(3)
                phrase = [ws * (pad // len(ws)) + " ".join(words), " ".join(words) + ws * (pad // len(ws)),
                          (ws * (pad // (n * len(ws)) + 1)).join(words)][k]
                yield from both(_case(phrase, "valid-%d" % n, "layout"))
        for _ in range(shard["count"]):
            n = rng.choice(bip39.LEGAL_COUNTS)
            words = rand_words(rng, n - 1)
            words = words + [complete_last(rng, words)]
            yield from both(_case(messy_layout(rng, words), "valid-%d" % n, "layout"))
            if rng.random() < 0.4:
                # non-ASCII White_Space characters as separators / padding
                ws = bip39.UNICODE_WS
                yield from both(_case(messy_layout(rng, words, ws), "valid-%d" % n, "layout"))
                i = rng.randrange(1, n)
                phrase = " ".join(words[:i]) + rng.choice(ws[6:]) + " ".join(words[i:])
                yield from both(_case(phrase, "valid-%d" % n, "layout"))
            if rng.random() < 0.3:
                # a separator that is NOT whitespace glues two words together -> unknown word
                i = rng.randrange(1, n)
                phrase = " ".join(words[:i]) + rng.choice([",", "-", "_", ".", "​", "\x00"]) + " ".join(words[i:])
                yield from both(_case(phrase, "unknown-word", "layout"))
