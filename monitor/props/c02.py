"""C02 — wallet seed is the BIP-39 PBKDF2 stretch of phrase and passphrase."""
import unicodedata

from ..gen import both, complete_last, lib_case, messy_layout, rand_words
from ..ref import bip39
from ..run.core import V
from .c01 import split_ascii

ID = "C02"
LEVEL = "exploration"
NEEDS = {"lib": ["dev", "release"]}
RULE = ("mnemonic.seed events compared with hashlib PBKDF2-HMAC-SHA512(canonical phrase, NFKD('mnemonic'+pw), 2048); phrases of "
        "all five lengths in canonical and hostile ASCII-whitespace layouts; passphrases: empty, ASCII, long (up to 1 MiB, pairs differing in the last byte, around 2^16 bytes before and after normalisation), NFKD-equivalent "
        "pairs, compatibility characters, Hangul, astral plane, combining-mark reorderings, random assigned code points "
        "(Unicode 14 repertoire). several seeds in a row from one parsed phrase object; distinct = distinct (phrase text, passphrase, profile); non-trivial = 64-byte seed compared")
REQUIRED = (["len-%d" % n for n in bip39.LEGAL_COUNTS] + ["pw-empty", "pw-ascii", "pw-long-salt>128B", "nfkd-changes-salt", "pw-astral",
            "layout-messy", "phrase>128B", "phrase<=128B", "nfkd-pair-equal", "pw-hangul", "pw-combining-reorder", "pw-whitespace-edge", "layout-unicode-whitespace", "pw-combining-run>30", "pw-combining-run<=30", "pw-huge>=64KiB", "pw-huge-after-nfkd", "same-object-several-passphrases"])
ASSUMPTIONS = ["passphrase code points are restricted to those assigned in Unicode 14 (Python's table); the Unicode stability "
               "policy guarantees the crate's newer table normalises them identically"]

# (precomposed / compatibility form, its NFKD-equivalent decomposed spelling)
_PRE = [0xe9, 0xc5, 0x212b, 0xfb01, 0xff21, 0x2460, 0x1e9b, 0xd55c, 0xac00, 0x1d400, 0xbd, 0x2126, 0x1e0d, 0xf1, 0x1c4,
        0x3392, 0xfdfa, 0xa0, 0x2003, 0x1ec7, 0x958, 0xfb2c, 0x2168, 0x33a7, 0xb5, 0x17f, 0x3d2, 0xfe64, 0x222d, 0x1e69,
        0x1f00, 0x1f82, 0x2f800, 0x3304, 0xff76, 0xff9e]
NFKD_PAIRS = [(chr(c), unicodedata.normalize("NFKD", chr(c))) for c in _PRE]
NFKD_PAIRS = [(a, b) for a, b in NFKD_PAIRS if a != b]
ASTRAL = ["\U0001f600", "\U0001f468\u200d\U0001f469\u200d\U0001f467", "\U00010348", "\U0001d54f", "\U00020000", "\U0001f1e9\U0001f1ea",
          "\U0001d7d8", "\U0001f130", "\U0002f800"]


def assigned14(cp):
    if 0xD800 <= cp <= 0xDFFF or cp == 0:
        return False
    return unicodedata.category(chr(cp)) != "Cn"


def rand_unicode(rng, n):
    out = []
    ranges = [(0x20, 0x7e), (0xa0, 0x24f), (0x370, 0x3ff), (0x400, 0x4ff), (0x590, 0x6ff), (0x900, 0x97f), (0x1100, 0x11ff),
              (0x1e00, 0x1fff), (0x2000, 0x206f), (0x2100, 0x218f), (0x2460, 0x24ff), (0x3040, 0x30ff), (0x3300, 0x33ff),
              (0xac00, 0xd7a3), (0xf900, 0xfaff), (0xfb00, 0xfb4f), (0xfe30, 0xfe6f), (0xff00, 0xffef), (0x1d400, 0x1d7ff),
              (0x1f100, 0x1f2ff), (0x1f600, 0x1f64f), (0x2f800, 0x2fa1d), (0x300, 0x36f)]
    while len(out) < n:
        lo, hi = rng.choice(ranges)
        cp = rng.randint(lo, hi)
        if assigned14(cp):
            out.append(chr(cp))
    return "".join(out)


def judge_seed(case, obs):
    o = obs[0]
    req = case["steps"][0]["lib"]
    v = V()
    if "ok" not in o and "err" not in o:
        return v
    words = split_ascii(req["phrase"])
    pw = req["password"]
    if bip39.classify(words) != "ok":
        if "ok" in o:
            v.bad("C02/invalid-phrase/seeded", "seed computed for an invalid phrase")
        return v.bucket("invalid-phrase-rejected")
    if "ok" not in o:
        return v.bad("C02/%s/rejected" % case["x"].get("cls", "seed"), "valid phrase rejected: %s" % o.get("err"))
    want = bip39.seed(words, pw).hex()
    n = len(words)
    if o["ok"]["seed"] != want:
        v.bad("C02/%s/seed-mismatch" % case["x"].get("cls", "seed"),
              "seed differs from PBKDF2-HMAC-SHA512 reference for %d words, passphrase %r" % (n, pw[:40]))
    v.bucket("len-%d" % n)
    canonical = " ".join(words)
    v.bucket("phrase>128B" if len(canonical.encode()) > 128 else "phrase<=128B")
    if req["phrase"] != canonical:
        v.bucket("layout-messy")
        if any(ord(c) > 127 for c in req["phrase"]):
            v.bucket("layout-unicode-whitespace")
    salt = "mnemonic" + pw
    nf = unicodedata.normalize("NFKD", salt)
    if pw == "":
        v.bucket("pw-empty")
    elif pw.isascii():
        v.bucket("pw-ascii")
    if nf != salt:
        v.bucket("nfkd-changes-salt")
        if unicodedata.normalize("NFD", salt) != nf:
            v.bucket("nfkd-differs-from-nfd")
        if unicodedata.normalize("NFKC", salt) != nf:
            v.bucket("nfkd-differs-from-nfkc")
    if len(nf.encode()) > 128:
        v.bucket("pw-long-salt>128B")
    if any(ord(c) > 0xffff for c in pw):
        v.bucket("pw-astral")
    if any(0xac00 <= ord(c) <= 0xd7a3 or 0x1100 <= ord(c) <= 0x11ff for c in pw):
        v.bucket("pw-hangul")
    for tag in case["x"].get("tags", []):
        v.bucket(tag)
    return v


def judge_pair(case, obs):
    """Metamorphic: two NFKD-equivalent passphrases must give the same seed (and the reference seed)."""
    v = V()
    if any("ok" not in o and "err" not in o for o in obs):
        return v
    a, b = obs
    ra, rb = case["steps"][0]["lib"], case["steps"][1]["lib"]
    if "ok" not in a or "ok" not in b:
        return v.bad("C02/nfkd-pair/rejected", "valid phrase rejected")
    want = bip39.seed(split_ascii(ra["phrase"]), ra["password"]).hex()
    if a["ok"]["seed"] != b["ok"]["seed"]:
        v.bad("C02/nfkd-pair/differ", "NFKD-equivalent passphrases %r / %r give different seeds" % (ra["password"][:30], rb["password"][:30]))
    elif a["ok"]["seed"] != want:
        v.bad("C02/nfkd-pair/seed-mismatch", "seed differs from the reference for passphrase %r" % ra["password"][:30])
    v.bucket("nfkd-pair-equal")
    for tag in case["x"].get("tags", []):
        v.bucket(tag)
    return v


def judge_same_object(case, obs):
    """Several seeds asked of ONE parsed phrase: each is the reference seed for its own passphrase."""
    v = V()
    o = obs[0]
    if "ok" not in o and "err" not in o:
        return v
    req = case["steps"][0]["lib"]
    if "ok" not in o:
        return v.bad("C02/same-object/rejected", "valid phrase rejected: %s" % o.get("err"))
    words = split_ascii(req["phrase"])
    for k, (pw, got) in enumerate(zip(req["passwords"], o["ok"]["seeds"])):
        if got != bip39.seed(words, pw).hex():
            return v.bad("C02/same-object/seed-mismatch", "seed number %d asked of the same parsed phrase (passphrase %r) differs from the reference" % (k + 1, pw[:40]))
    return v.bucket("same-object-several-passphrases")


JUDGES = {"seed": judge_seed, "pair": judge_pair, "same-object": judge_same_object}


def shards(tier, seed):
    T = tier == "thorough"
    k = 16
    return [{"name": "seeds-%d" % i, "count": (12000 if T else 500), "idx": i} for i in range(k)]


def _phrase(rng):
    n = rng.choice(bip39.LEGAL_COUNTS)
    w = rand_words(rng, n - 1)
    return w + [complete_last(rng, w)]


def _password(rng):
    k = rng.randrange(13)
    if k == 0:
        return "", []
    if k == 1:
        return "".join(chr(rng.randint(0x20, 0x7e)) for _ in range(rng.randint(1, 40))), []
    if k == 2:
        return "".join(chr(rng.randint(0x21, 0x7e)) for _ in range(rng.choice([119, 120, 121, 127, 128, 129, 248, 300, 1000]))), []
    if k == 3:
        a, b = rng.choice(NFKD_PAIRS)
        return "pre" + a + "post", []
    if k == 4:
        a, b = rng.choice([p for p in NFKD_PAIRS if p[1]])
        return "pre" + b + "post", []
    if k == 5:
        return "".join(rng.choice(ASTRAL) for _ in range(rng.randint(1, 4))) + rand_unicode(rng, 3), []
    if k == 6:
        # combining marks in non-canonical order: NFKD must reorder by combining class
        base = rng.choice("aeoudnsz")
        marks = rng.sample(["\u0301", "\u0323", "\u0308", "\u0327", "\u0302", "\u031b", "\u0303", "\u0330"], rng.randint(2, 4))
        return base + "".join(marks) + rng.choice(["", "x", "\u00e9"]), ["pw-combining-reorder"]
    if k == 7:
        return "".join(chr(rng.randint(0xac00, 0xd7a3)) for _ in range(rng.randint(1, 6))), []
    if k == 8:
        return "TREZOR", []
    if k == 9:
        # white space at the edges / only white space: part of the passphrase, never trimmed
        core = "".join(chr(rng.randint(0x21, 0x7e)) for _ in range(rng.randint(0, 6)))
        return rng.choice([" ", "\t", "\n", "  "]) + core + rng.choice(["", " ", "\n", "\u00a0"]), ["pw-whitespace-edge"]
    if k == 11:
        # long runs of combining marks (the "stream-safe" limit of some normalisers is 30) and zalgo text
        marks = ["\u0301", "\u0323", "\u0308", "\u0327", "\u0302", "\u031b", "\u0303", "\u0330", "\u0489", "\u20dd", "\u0f74", "\u3099"]
        n = rng.choice([29, 30, 31, 32, 33, 60, 61, 100, 300])
        run = "".join(rng.choice(marks[:4]) if rng.random() < 0.7 else rng.choice(marks) for _ in range(n))
        return rng.choice(["a", "e\u0301", "\u1e69", "", "Z"]) + run + rng.choice(["", "x", "\u00e9" + run[:31]]), ["pw-combining-run>30" if n > 30 else "pw-combining-run<=30"]
    if k == 10:
        return rng.choice(["mnemonic", "MNEMONIC", "\x00", "a\x00b", "\x7f", "\\", "'\"", "%s", "\u200b", "\ufeff"]), []
    return rand_unicode(rng, rng.randint(1, 24)), []


def gen(shard, rng, tier):
    # Small pools make inputs collide inside one server process: the same phrase with another passphrase, the same
    # passphrase with another phrase. A result that depends on an earlier call (a stale cache) then shows as a mismatch.
    pool_words, pool_pw = [], []
    if shard.get("idx") == 0:
        # very long passphrases: every byte of the salt counts, also past 2^16 bytes, and also when the length is only
        # reached after normalisation (U+FDFA expands to 18 code points / 33 bytes)
        for n in (4096, 65519, 65520, 65527, 65528, 65529, 65535, 65536, 65537, 70000, 131072, 131073, 1 << 20):
            words = _phrase(rng)
            body = "".join(chr(rng.randint(0x21, 0x7e)) for _ in range(n - 1))
            for pw in (body + "A", body + "B"):
                yield from both(lib_case("seed", {"op": "mnemonic.seed", "phrase": " ".join(words), "password": pw}, {"cls": "seed", "tags": ["pw-huge>=64KiB" if n >= 65520 else "pw-4KiB"]}))
        for n in (3640, 3641, 1986, 7300):
            words = _phrase(rng)
            for tail in ("x", "y"):
                yield from both(lib_case("seed", {"op": "mnemonic.seed", "phrase": " ".join(words), "password": "\ufdfa" * n + tail}, {"cls": "seed", "tags": ["pw-huge-after-nfkd"]}))
    for i in range(shard["count"]):
        if pool_words and rng.random() < 0.3:
            words = rng.choice(pool_words)
        else:
            words = _phrase(rng)
            pool_words.append(words)
            del pool_words[:-6]
        phrase = " ".join(words) if rng.random() < 0.6 else messy_layout(rng, words, bip39.ASCII_WS if rng.random() < 0.6 else bip39.UNICODE_WS)
        if pool_pw and rng.random() < 0.3:
            pw, tags = rng.choice(pool_pw)
        else:
            pw, tags = _password(rng)
            pool_pw.append((pw, tags))
            del pool_pw[:-6]
        yield from both(lib_case("seed", {"op": "mnemonic.seed", "phrase": phrase, "password": pw}, {"cls": "seed", "tags": tags}))
        if i % 10 == 3:
            pw2 = _password(rng)[0]
            yield from both({"j": "same-object", "x": {"cls": "same-object"}, "steps": [
                {"lib": {"op": "mnemonic.seeds", "phrase": " ".join(words), "passwords": [pw, pw2, pw, "", pw2]}}]})
        if i % 6 == 0:
            a, b = rng.choice([p for p in NFKD_PAIRS if p[1]])
            pre, post = rand_unicode(rng, rng.randint(0, 3)), rand_unicode(rng, rng.randint(0, 3))
            for p in ("release", "dev"):
                yield {"j": "pair", "profile": p, "x": {"cls": "nfkd-pair"}, "steps": [
                    {"lib": {"op": "mnemonic.seed", "phrase": phrase, "password": pre + a + post}},
                    {"lib": {"op": "mnemonic.seed", "phrase": " ".join(words), "password": pre + b + post}}]}
