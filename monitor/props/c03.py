"""C03 — derived keys equal BIP-32 CKDpriv along the whole path."""
from ..gen import both, lib_case, rand_bytes
from ..ref import eth
from ..run.core import V

ID = "C03"
LEVEL = "exploration"
NEEDS = {"lib": ["dev", "release"]}
RULE = ("hdk.derive(seed, path) events compared with an independent BIP-32 CKDpriv (HMAC-SHA512 + own secp256k1); seeds of "
        "length 0..300, depth 1..12 and deep paths of 13..1025 components (around 16/32/64/128/256/512/1024), indices 0 / 1 / 2^31-1 / byte-distinct patterns / random, hardened-normal mixes incl. "
        "normal below hardened; distinct = distinct (seed, path); non-trivial = 32-byte key compared")
REQUIRED = (["depth-%d" % d for d in range(1, 9)] + ["depth-13..255", "depth>255"] + ["all-hardened", "all-normal", "normal-below-hardened", "hardened-below-normal",
            "index-0", "index-1", "index-2^31-1", "index-byte-distinct", "seedlen-16", "seedlen-32", "seedlen-64", "seedlen-other",
            "bip44-shape", "parent-key-1-zero-bytes", "parent-chaincode-1-zero-bytes", "parent-key-3-zero-bytes", "parent-chaincode-3-zero-bytes",
            "final-key-3-zero-bytes"])
# Nodes with a rare shape, found by an offline search (2^24..2^25 HMACs each) from the seed bytes(range(64)): the hardened child
# m/6686995' has a chain code starting 000000, m/14768256' a private key starting 000000, m/25157348' an I_L starting 000000,
# m/5640992' an I_L starting ffffff. By volume such nodes appear once per 2^24 derivation steps, i.e. never.
RARE_SEED = bytes(range(64))
RARE_NODES = [6686995, 14768256, 25157348, 5640992]
# 32-byte seeds whose master chain code / master key starts 000000 (same kind of search over counter seeds)
RARE_MASTERS = ["%064x" % 0x9aba9d, "%064x" % 0x12d963a]
SEED_LENS = [0, 1, 15, 16, 17, 31, 32, 33, 63, 64, 65, 127, 128, 129, 255, 256, 257, 300, 511, 512, 513, 1000, 4096, 65536]
IDX = [0, 1, 2, 2**31 - 1, 2**31 - 2, 0x01020304, 0x7fEDCBA9, 0x00ff00ff, 0x7f000001, 255, 256, 65535, 65536, 2**24, 44, 60]


def judge_derive(case, obs):
    o = obs[0]
    req = case["steps"][0]["lib"]
    v = V()
    if "ok" not in o and "err" not in o:
        return v
    comps = eth.parse_path_strict(req["path"])
    assert comps is not None, req["path"]
    seed = bytes.fromhex(req["seed"])
    try:
        trace = eth.bip32_trace(seed, comps)
        want = trace[-1][0]
    except eth.InvalidChild:
        if "ok" in o:
            v.bad("C03/invalid-child/derived", "a key was returned where BIP-32 declares the child invalid")
        return v.bucket("bip32-invalid-level")
    if "ok" not in o:
        return v.bad("C03/%s/rejected" % case["x"]["cls"], "derivation failed (%s: %s) for path %s" % (o.get("stage"), o.get("err"), req["path"]))
    if o["ok"]["secret"] != "%064x" % want:
        v.bad("C03/%s/key-mismatch" % case["x"]["cls"], "derived key differs from BIP-32 reference for path %s (seed %d bytes)" % (req["path"], len(seed)))
    # (the address of the derived key is C04's subject and is judged there, not here)
    d = len(comps)
    # rare shapes of the intermediate nodes (each must be used as the full 32 bytes it is): measured on the reference trace
    for lvl, (k, c) in enumerate(trace):
        where = "final" if lvl == d else "parent"
        kz = 32 - (k.bit_length() + 7) // 8
        cz = len(c) - len(c.lstrip(b"\x00"))
        if kz:
            v.bucket("%s-key-%d-zero-bytes" % (where, min(kz, 3)))
        if cz and lvl < d:
            v.bucket("parent-chaincode-%d-zero-bytes" % min(cz, 3))
    v.bucket("depth-%d" % d if d <= 8 else "depth-9+")
    if d > 255:
        v.bucket("depth>255")
    elif d > 12:
        v.bucket("depth-13..255")
    hs = [h for _, h in comps]
    if all(hs):
        v.bucket("all-hardened")
    if not any(hs):
        v.bucket("all-normal")
    for a, b in zip(hs, hs[1:]):
        v.bucket("normal-below-hardened" if (a and not b) else "hardened-below-normal" if (b and not a) else "same-kind-step")
    for i, _ in comps:
        if i == 0:
            v.bucket("index-0")
        elif i == 1:
            v.bucket("index-1")
        elif i == 2**31 - 1:
            v.bucket("index-2^31-1")
        elif len({(i >> s) & 0xff for s in (0, 8, 16, 24)}) == 4:
            v.bucket("index-byte-distinct")
    v.bucket("seedlen-%d" % len(seed) if len(seed) in (16, 32, 64) else "seedlen-other")
    if d == 5 and comps[:3] == [(44, True), (60, True), (0, True)]:
        v.bucket("bip44-shape")
    return v


JUDGES = {"derive": judge_derive}


def shards(tier, seed):
    T = tier == "thorough"
    return [{"name": "derive-%d" % i, "count": 8000 if T else 700, "first": i == 0} for i in range(16)]


def rand_index(rng):
    r = rng.random()
    if r < 0.45:
        return rng.choice(IDX)
    if r < 0.6:
        return rng.randrange(0, 100)
    return rng.randrange(0, 2**31)


def rand_path(rng):
    k = rng.randrange(6)
    depth = rng.choice([1, 1, 2, 3, 4, 5, 5, 6, 7, 8, 8, 9, 12]) if k else 5
    if k == 0:
        comps = eth.default_path(rand_index(rng))
        j = rng.randrange(6)
        if j < 5:
            comps[j] = (rand_index(rng), comps[j][1])
        return comps
    if k == 1:
        return [(rand_index(rng), True) for _ in range(depth)]
    if k == 2:
        return [(rand_index(rng), False) for _ in range(depth)]
    if k == 3:
        return [(rand_index(rng), i % 2 == 0) for i in range(depth)]
    return [(rand_index(rng), rng.random() < 0.5) for _ in range(depth)]


def gen(shard, rng, tier):
    # pools: the same seed with another path and the same path with another seed inside one server process
    pool_seed, pool_path = [], []
    if shard.get("first"):
        for node in RARE_NODES:
            yield from both(lib_case("derive", {"op": "hdk.derive", "seed": RARE_SEED.hex(), "path": "m/%d'" % node}, {"cls": "rare-node"}))
            for tail in ([(0, False)], [(0, True)], [(1, False)], [(2**31 - 1, True)], [(44, True), (60, True), (0, True), (0, False), (0, False)],
                         [(rand_index(rng), rng.random() < 0.5) for _ in range(3)]):
                yield from both(lib_case("derive", {"op": "hdk.derive", "seed": RARE_SEED.hex(), "path": eth.format_path([(node, True)] + tail)}, {"cls": "rare-node"}))
        for sd in RARE_MASTERS:
            for tail in ([(0, False)], [(0, True)], eth.default_path(0), [(rand_index(rng), rng.random() < 0.5) for _ in range(3)]):
                yield from both(lib_case("derive", {"op": "hdk.derive", "seed": sd, "path": eth.format_path(tail)}, {"cls": "rare-node"}))
    if shard.get("first"):
        # very deep paths: the depth is unbounded in the path grammar (a counter, a depth byte or a fixed-size buffer in the
        # implementation is not); mostly hardened levels so that the reference stays cheap
        for depth in (13, 16, 17, 31, 32, 33, 63, 64, 65, 127, 128, 129, 254, 255, 256, 257, 300, 511, 512, 513, 1000, 1024, 1025):
            seed = rand_bytes(rng, 64)
            comps = [(rand_index(rng), rng.random() < (0.5 if depth <= 65 else 0.97)) for _ in range(depth)]
            yield from both(lib_case("derive", {"op": "hdk.derive", "seed": seed.hex(), "path": eth.format_path(comps)}, {"cls": "deep-path"}))
    for _ in range(shard["count"]):
        if pool_seed and rng.random() < 0.3:
            seed = rng.choice(pool_seed)
        else:
            n = rng.choice(SEED_LENS) if rng.random() < 0.5 else rng.choice([16, 32, 64, 64, 64])
            seed = rand_bytes(rng, n)
            if rng.random() < 0.05:
                seed = bytes(n) if rng.random() < 0.5 else b"\xff" * n
            pool_seed.append(seed)
            del pool_seed[:-6]
        if pool_path and rng.random() < 0.3:
            comps = rng.choice(pool_path)
            if rng.random() < 0.5 and comps:
                # a sibling: same parent, last index changed / hardened flag flipped
                comps = comps[:-1] + [(rand_index(rng), comps[-1][1]) if rng.random() < 0.5 else (comps[-1][0], not comps[-1][1])]
        else:
            comps = rand_path(rng)
            pool_path.append(comps)
            del pool_path[:-6]
        yield from both(lib_case("derive", {"op": "hdk.derive", "seed": seed.hex(), "path": eth.format_path(comps)}, {"cls": "derive"}))
