"""C04 — public key and address are the secp256k1 / Keccak-256 images of the secret."""
from ..gen import both, boundary_scalar, lib_case, rand_bytes, limb_value
from ..ref import eth, secp
from ..run.core import V

ID = "C04"
LEVEL = "exploration"
NEEDS = {"lib": ["dev", "release"]}
N = secp.N
RULE = ("key.new(bytes) events: for 32-byte input accept iff 1 <= k < n; public key = k*G (own Jacobian arithmetic) in 65-byte "
        "SEC1 form, address = EIP-55(keccak(x||y)[12:]) (own Keccak); other lengths 0..64 must be rejected or taken as the same "
        "big-endian integer; distinct = distinct input byte strings; non-trivial = key material compared or rejection required")
REQUIRED = ["in-range", "k=1", "k=2", "k=n-2", "k=n-1", "reject-0", "reject-n", "reject-n+1", "reject-2^256-1", "reject-above-n-random",
            "eip55-has-upper", "eip55-has-lower-letter"] + ["len-%d" % l for l in range(0, 65) if l != 32]


def judge_key(case, obs):
    o = obs[0]
    b = bytes.fromhex(case["steps"][0]["lib"]["bytes"])
    v = V()
    if "ok" not in o and "err" not in o:
        return v
    k = int.from_bytes(b, "big")
    if len(b) == 32:
        if not (1 <= k < N):
            if "ok" in o:
                return v.bad("C04/out-of-range-32/accepted", "32-byte secret %s accepted (secret reported %s)" % (b.hex(), o["ok"]["secret"]))
            v.bucket("reject-0" if k == 0 else "reject-n" if k == N else "reject-n+1" if k == N + 1 else
                     "reject-2^256-1" if k == 2**256 - 1 else "reject-above-n-random")
            return v
        if "ok" not in o:
            return v.bad("C04/in-range-32/rejected", "valid secret %064x rejected: %s" % (k, o.get("err")))
    else:
        v.bucket("len-%d" % len(b))
        if "ok" not in o:
            return v.bucket("other-length-rejected")
        if not (1 <= k < N) or o["ok"]["secret"] != "%064x" % (k % 2**256):
            return v.bad("C04/other-length/different-key", "%d-byte input %s taken as key %s" % (len(b), b.hex()[:80], o["ok"]["secret"]))
        v.bucket("other-length-accepted-same-integer")
    r = o["ok"]
    pt = secp.pubkey(k)
    if r["secret"] != "%064x" % k:
        v.bad("C04/in-range/secret-mismatch", "secret() returns %s for %064x" % (r["secret"], k))
    if r["pub65"] != secp.ser_uncompressed(pt).hex():
        v.bad("C04/in-range/pubkey-mismatch", "public key differs from k*G for k=%064x" % k)
    ab = eth.address_bytes_of_pub(pt)
    want = eth.eip55(ab)
    if r["address_bytes"] != ab.hex():
        v.bad("C04/in-range/address-mismatch", "address bytes %s, reference %s" % (r["address_bytes"], ab.hex()))
    if r["address"] != want:
        v.bad("C04/in-range/eip55-mismatch", "address text %s, reference %s" % (r["address"], want))
    v.bucket("in-range")
    for name, val in (("k=1", 1), ("k=2", 2), ("k=n-2", N - 2), ("k=n-1", N - 1)):
        if k == val:
            v.bucket(name)
    if any(c.isupper() for c in want):
        v.bucket("eip55-has-upper")
    if any(c in "abcdef" for c in want):
        v.bucket("eip55-has-lower-letter")
    return v


JUDGES = {"key": judge_key}


def shards(tier, seed):
    T = tier == "thorough"
    return [{"name": "keys-%d" % i, "count": 40000 if T else 1200, "first": i == 0} for i in range(16)]


def gen(shard, rng, tier):
    def case(b):
        return both(lib_case("key", {"op": "key.new", "bytes": b.hex()}, {"cls": "key-%d" % len(b)}))

    if shard.get("first"):
        for k in (0, 1, 2, 3, N - 3, N - 2, N - 1, N, N + 1, N + 2, 2**256 - 1, 2**255, 2**255 - 1, (N - 1) // 2, (N + 1) // 2):
            yield from case(k.to_bytes(32, "big"))
        for l in range(0, 65):
            for content in ("zero", "one", "ff", "rand", "lead0", "n", "ascii-hex", "ascii-hex-upper", "ascii-0x"):
                if content.startswith("ascii"):
                    # text of a key instead of its bytes (hex digits, optionally prefixed): a byte string like any other
                    txt = ("%0*x" % (max(l, 1), rng.getrandbits(4 * max(l, 1))))[:l]
                    if content == "ascii-hex-upper":
                        txt = txt.upper()
                    if content == "ascii-0x":
                        txt = ("0x" + txt)[:l]
                    yield from case(txt.encode())
                    continue
                if content == "zero":
                    b = bytes(l)
                elif content == "one":
                    b = bytes(max(0, l - 1)) + b"\x01" if l else b""
                elif content == "ff":
                    b = b"\xff" * l
                elif content == "rand":
                    b = rand_bytes(rng, l)
                elif content == "lead0":
                    b = (bytes(l // 2) + rand_bytes(rng, l - l // 2))
                else:
                    b = (N.to_bytes(32, "big") * 2)[:l] if l <= 32 else bytes(l - 32) + (N - 1).to_bytes(32, "big")
                yield from case(b)
    if shard.get("first"):
        # lengths equal to 32 modulo 256 / 65536 (a length compared after a narrowing cast), valid scalar in the first or last 32 bytes
        for l in (32 + 256, 32 + 512, 32 + 65536, 256, 64 + 256):
            good = rng.randrange(1, N).to_bytes(32, "big")
            for b in (good + bytes(l - 32), bytes(l - 32) + good, good + rand_bytes(rng, l - 32), rand_bytes(rng, l - 32) + good):
                yield from case(b)
    for _ in range(shard["count"] // 10):
        yield from case(limb_value(rng).to_bytes(32, "big"))
    for _ in range(shard["count"]):
        r = rng.random()
        if r < 0.8:
            yield from case(boundary_scalar(rng).to_bytes(32, "big"))
        elif r < 0.9:
            yield from case(rng.randrange(N, 2**256).to_bytes(32, "big"))
        else:
            yield from case(rand_bytes(rng, rng.randrange(0, 65)))
