"""C05 — signatures are valid, recoverable, low-s and RFC 6979 deterministic."""
import hashlib

from ..gen import both, boundary_scalar, lib_case, rand_bytes, COLLIDING_KEYS, near_collisions, limb_value, swapped_halves
from ..ref import eth, secp
from ..ref.keccak import keccak256
from ..run.core import V

ID = "C05"
LEVEL = "exploration"
NEEDS = {"lib": ["dev", "release"]}
N = secp.N
RULE = ("key.sign(secret, digest) events (each input signed twice: sign and try_sign): 1<=r<n, 1<=s<=n/2, own ECDSA verification, "
        "own public-key recovery from (digest,r,s,yParity) == k*G, equality with own RFC 6979 HMAC-SHA256 signature (low-s "
        "normalised, parity flipped) for digests < n, both calls equal, text form; distinct = distinct (key, digest); "
        "non-trivial = signature verified and recovered")
REQUIRED = ["parity0-raw-s-low", "parity0-raw-s-high", "parity1-raw-s-low", "parity1-raw-s-high", "digest=0", "digest=1", "digest=n-1",
            "digest=n", "digest=n+1", "digest=2^256-1", "digest>=n-random", "digest<n-random", "key=1", "key=n-1", "rfc6979-equal"]


def judge_sign(case, obs):
    o = obs[0]
    req = case["steps"][0]["lib"]
    v = V()
    if "ok" not in o:
        if "err" in o:
            v.bad("C05/sign/error", "signing failed: %s" % o["err"])
        return v
    x = int(req["secret"], 16)
    d = bytes.fromhex(req["digest"])
    z = int.from_bytes(d, "big")
    sig, again = o["ok"]["sig"], o["ok"]["again"]
    cls = case["x"]["cls"]
    if sig != again:
        v.bad("C05/%s/nondeterministic" % cls, "two signing calls on the same (key, digest) differ: %s vs %s" % (sig, again))
    r, s, par = int(sig["r"], 16), int(sig["s"], 16), sig["parity"]
    if not (1 <= r < N):
        v.bad("C05/%s/r-range" % cls, "r out of range")
    if not (1 <= s <= secp.HALF_N):
        v.bad("C05/%s/high-s" % cls, "s = %x is not in [1, n/2]" % s)
    if par not in (0, 1):
        v.bad("C05/%s/parity-range" % cls, "yParity = %r" % par)
    if v.viol:
        return v
    pub = secp.pubkey(x)
    if not secp.verify(pub, d, r, s):
        v.bad("C05/%s/does-not-verify" % cls, "signature does not verify under the signer's public key")
    rec = secp.recover(d, r, s, par)
    if rec != pub:
        v.bad("C05/%s/recovers-other-key" % cls, "recovery from (digest, r, s, yParity=%d) does not return the signer's key" % par)
    if "address" in o["ok"] and (o["ok"]["address"] != eth.address_of_key(x) or o["ok"].get("pub65") != secp.ser_uncompressed(pub).hex()):
        v.bad("C05/%s/signer-identity" % cls, "the signing key reports address %s / another public key than the one the signature recovers to (%s)" % (
            o["ok"]["address"], eth.address_of_key(x)))
    # (the text form of a signature is C15's subject and is judged there, not here)
    if z < N:
        er, es, epar, high = secp.sign_rfc6979(x, d)
        if (r, s, par) != (er, es, epar):
            v.bad("C05/%s/not-rfc6979" % cls, "signature differs from the RFC 6979 deterministic signature (r,s,parity)=(%x,%x,%d)" % (er, es, epar))
        else:
            v.bucket("rfc6979-equal")
        v.bucket("parity%d-raw-s-%s" % (par, "high" if high else "low"))
    else:
        v.bucket("digest>=n-parity%d" % par)
    for name, val in (("digest=0", 0), ("digest=1", 1), ("digest=n-1", N - 1), ("digest=n", N), ("digest=n+1", N + 1), ("digest=2^256-1", 2**256 - 1)):
        if z == val:
            v.bucket(name)
    from .. import txgen
    txgen.sig_shape_buckets(v, r, s)
    if case["x"].get("rand"):
        v.bucket("digest>=n-random" if z >= N else "digest<n-random")
    if x == 1:
        v.bucket("key=1")
    if x == N - 1:
        v.bucket("key=n-1")
    return v


JUDGES = {"sign": judge_sign}


def shards(tier, seed):
    T = tier == "thorough"
    return [{"name": "sign-%d" % i, "count": 5000 if T else 450, "first": i == 0} for i in range(16)]


def gen(shard, rng, tier):
    def case(x, d, cls="sign", rand=False):
        return both(lib_case("sign", {"op": "key.sign", "secret": "%064x" % x, "digest": d.hex()}, {"cls": cls, "rand": rand}))

    special_d = [0, 1, 2, N - 2, N - 1, N, N + 1, N + 2, 2**256 - 1, 2**255, 2**255 - 1, secp.HALF_N, secp.HALF_N + 1]
    if shard.get("first"):
        for x in (1, 2, N - 1, N - 2, 0x4F3EDF983AC636A65A842CE7C78D9AA706D3B113BCE9C46F30D7D21715B23B1D):
            for z in special_d:
                yield from case(x, z.to_bytes(32, "big"), "boundary")
    if shard.get("first"):
        from .. import txgen
        for e in txgen.rare_sigs():
            yield from case(txgen.RARE_KEY, bytes.fromhex(e["digest"]), "rare-sig-shape")
    pool_x, pool_d = [], []
    if shard.get("first"):
        # consecutive calls in one process whose inputs nearly collide: same digest under two keys whose addresses / public keys share
        # their first bytes; same key over digests that differ in a few bytes; keys that differ in one bit
        for _ in range(6):
            for ka, kb in COLLIDING_KEYS:
                d = rand_bytes(rng, 32)
                for x in (ka, kb, ka, kb):
                    yield from case(x, d, "colliding-identity", True)
            da, db = near_collisions(rng)
            x = boundary_scalar(rng)
            for d in (da, db, da):
                yield from case(x, d, "near-colliding-digests", True)
            xa, xb = near_collisions(rng)
            xa, xb = int.from_bytes(xa, "big") % (N - 1) + 1, int.from_bytes(xb, "big") % (N - 1) + 1
            d = rand_bytes(rng, 32)
            for x in (xa, xb, xa):
                yield from case(x, d, "near-colliding-keys", True)
            for _ in range(4):
                xa, xb = swapped_halves(rng)
                d = rand_bytes(rng, 32)
                for x in (xa, xb, xa, xb):
                    yield from case(x, d, "checksum-colliding-keys", True)
        for _ in range(300):
            # digests and keys on multi-word arithmetic boundaries
            yield from case(boundary_scalar(rng), limb_value(rng).to_bytes(32, "big"), "limb-digest", True)
            yield from case(limb_value(rng) % (N - 1) + 1, rand_bytes(rng, 32), "limb-key", True)
    for i in range(shard["count"]):
        x = boundary_scalar(rng)
        # pools: the same key with another digest and the same digest with another key inside one server process
        if pool_x and rng.random() < 0.3:
            x = rng.choice(pool_x)
        else:
            pool_x.append(x)
            del pool_x[:-5]
        if pool_d and rng.random() < 0.2:
            yield from case(x, rng.choice(pool_d), "reused-digest", True)
            continue
        r = rng.random()
        if r < 0.15:
            d = rng.choice(special_d).to_bytes(32, "big")
            yield from case(x, d, "boundary")
        elif r < 0.2:
            d = limb_value(rng).to_bytes(32, "big")
            yield from case(x, d, "limb-digest", True)
        elif r < 0.3:
            d = rng.randrange(N, 2**256).to_bytes(32, "big")
            yield from case(x, d, "digest>=n", True)
        elif r < 0.5:
            d = keccak256(b"msg %d" % rng.randrange(10**6))
            yield from case(x, d, "keccak", True)
        elif r < 0.6:
            d = hashlib.sha256(rand_bytes(rng, 8)).digest()
            yield from case(x, d, "sha", True)
        else:
            d = rand_bytes(rng, 32)
            pool_d.append(d)
            del pool_d[:-5]
            yield from case(x, d, "random", True)
