"""C06 — signed transactions are the exact typed encodings and recover to the signer."""
from .. import txgen
from ..gen import both, boundary_scalar, lib_case, rand_bytes
from ..ref import eth, rlp, secp
from ..ref import tx as reftx
from ..run.core import V

ID = "C06"
LEVEL = "exploration"
NEEDS = {"lib": ["dev", "release"]}
N = secp.N
RULE = ("tx.process(json, key) events: kind rule, unsigned payload and signed bytes byte-equal to an independent encoder built "
        "from the abstract transaction, signing hash = own Keccak of the payload, strict-RLP decode of the signed bytes returns "
        "every field, sender recovered from the reference hash = address(key), v formula; random field values of every byte "
        "width, calldata 0..70000 bytes, recipients present/absent/null, access-list shapes, chain ids to 2^200, all numeric "
        "spellings; distinct = distinct (document, key); non-trivial = signed bytes compared and sender recovered")
REQUIRED = (["%s-parity%d" % (k, p) for k in txgen.KINDS for p in (0, 1)] + ["legacy-nochain-parity0", "legacy-nochain-parity1",
            "to-absent", "to-null", "to-present", "al-empty", "al-addr-noslots", "al-multi", "al-duplicate", "data-0", "data-1",
            "data-2..55", "data-56..255", "data-256..65535", "only-one-fee-field-rejected", "missing-field-rejected", "decoy-keys-judged", "kind-key-null-rejected", "access-list-without-chain-id-rejected",
            "1559-without-accesslist-key"])


def expected_sender_ok(h, r, s, par, x):
    return secp.recover(h, r, s, par) == secp.pubkey(x)


def check_signed(v, cls, tx, o, x):
    """Shared by C06/C11: compares an ok observation of tx.process with the reference."""
    want_unsigned = reftx.unsigned_payload(tx)
    if o["kind"] != tx["kind"]:
        v.bad("C06/%s/kind" % cls, "document treated as %s, expected %s" % (o["kind"], tx["kind"]))
        return False
    if o["unsigned"] != want_unsigned.hex():
        v.bad("C06/%s/unsigned-payload" % cls, "unsigned payload differs from the reference encoding (%s...)" % o["unsigned"][:80])
        return False
    h = reftx.signing_hash(tx)
    if o["hash"] != h.hex():
        v.bad("C06/%s/signing-hash" % cls, "signing hash is not Keccak-256 of the unsigned payload")
        return False
    sig = o["sig"]
    r, s, par = int(sig["r"], 16), int(sig["s"], 16), sig["parity"]
    want_signed = reftx.signed_bytes(tx, r, s, par)
    if o["signed"] != want_signed.hex():
        v.bad("C06/%s/signed-bytes" % cls, "signed encoding differs from the reference (kind %s, chainId %s)" % (tx["kind"], tx.get("chainId")))
        return False
    try:
        dtx, vv, r2, s2 = reftx.decode_signed(bytes.fromhex(o["signed"]))
    except (rlp.NonCanonical, reftx.Malformed) as e:
        v.bad("C06/%s/undecodable" % cls, "independent strict decoder rejects the signed bytes: %s" % e)
        return False
    if not reftx.same_tx(dtx, tx) or (r2, s2) != (r, s):
        v.bad("C06/%s/decoded-fields" % cls, "decoded fields differ from the JSON values")
    if tx["kind"] == reftx.LEGACY:
        if vv != reftx.legacy_v(tx.get("chainId"), par):
            v.bad("C06/%s/v" % cls, "v = %d for chainId %s parity %d" % (vv, tx.get("chainId"), par))
    elif vv != par:
        v.bad("C06/%s/yparity" % cls, "yParity field %d, signature parity %d" % (vv, par))
    if not (1 <= r < N and 1 <= s <= secp.HALF_N) or not expected_sender_ok(h, r, s, par, x):
        v.bad("C06/%s/sender" % cls, "sender recovered from the signed transaction is not the signer's address")
    return True


def judge_tx(case, obs):
    o = obs[0]
    xm = case["x"]
    v = V()
    if "ok" not in o and "err" not in o:
        return v
    cls = xm["cls"]
    if xm.get("expect") == "reject":
        if "ok" in o:
            return v.bad("C06/%s/accepted" % cls, "document that must be refused was accepted as %s" % o["ok"]["kind"])
        return v.bucket(xm["bucket"])
    tx = txgen.tx_from_meta(xm["tx"])
    if "ok" not in o:
        if xm.get("decoys"):
            # the properties do not oblige the tool to accept unknown keys; if it does, they must not change anything
            v.nontrivial = False
            return v.bucket("decoy-keys-rejected").bucket("decoy-keys-judged")
        return v.bad("C06/%s/rejected" % cls, "well-formed %s transaction rejected: %s" % (tx["kind"], o.get("err")))
    x = int(case["steps"][0]["lib"]["secret"], 16)
    if not check_signed(v, cls, tx, o["ok"], x):
        return v
    par = o["ok"]["sig"]["parity"]
    txgen.sig_shape_buckets(v, int(o["ok"]["sig"]["r"], 16), int(o["ok"]["sig"]["s"], 16))
    if tx["kind"] == reftx.LEGACY and tx.get("chainId") is None:
        v.bucket("legacy-nochain-parity%d" % par)
    else:
        v.bucket("%s-parity%d" % (tx["kind"], par))
    v.bucket("to-present" if tx.get("to") is not None else ("to-" + xm.get("to_style", "absent")))
    if tx["kind"] != reftx.LEGACY:
        al = tx.get("accessList") or []
        if not al:
            v.bucket("al-empty")
        elif len(al) == 1 and not al[0][1]:
            v.bucket("al-addr-noslots")
        else:
            v.bucket("al-multi")
        if len(al) > 1 and al[-1] == al[0]:
            v.bucket("al-duplicate")
        if tx["kind"] == reftx.T1559 and not xm.get("has_al_key"):
            v.bucket("1559-without-accesslist-key")
    v.bucket("data-" + txgen.size_class(len(tx["data"])))
    if xm.get("decoys"):
        v.bucket("decoy-keys-ignored").bucket("decoy-keys-judged")
    return v


JUDGES = {"tx": judge_tx}


def shards(tier, seed):
    T = tier == "thorough"
    return [{"name": "tx-%d" % i, "count": 8000 if T else 800, "big": i < 4} for i in range(16)]


def make_case(rng, tx, cls="random"):
    to_style = rng.choice(["absent", "null"])
    toks = txgen.tokens_for(rng, tx, to_style=to_style)
    doc = txgen.render(rng, toks)
    x = boundary_scalar(rng)
    return lib_case("tx", {"op": "tx.process", "json": doc, "secret": "%064x" % x},
                    {"cls": cls, "tx": txgen.tx_to_meta(tx), "to_style": to_style, "has_al_key": "accessList" in toks})


def gen(shard, rng, tier):
    if shard["name"] == "tx-0":
        # transactions whose deterministic signature has several leading zero bytes in r or s (offline search, txgen.rare_sigs)
        for e in txgen.rare_sigs():
            if e["what"] == "raw":
                continue
            tx = txgen.rare_sig_tx(e["what"], e["i"])
            toks = txgen.tokens_for(rng, tx)
            yield from both(lib_case("tx", {"op": "tx.process", "json": txgen.render(rng, toks), "secret": "%064x" % txgen.RARE_KEY},
                                     {"cls": "rare-sig-shape", "tx": txgen.tx_to_meta(tx), "to_style": "absent", "has_al_key": "accessList" in toks}))
    for i in range(shard["count"]):
        tx = txgen.rand_tx(rng, big=shard.get("big") and i % 20 == 0)
        yield from both(make_case(rng, tx))
        if i % 6 == 0:
            # foreign keys that other tools use as aliases or metadata, with conflicting values: they are not fields of this format
            t = txgen.rand_tx(rng)
            c = make_case(rng, t, "decoy-keys")
            import json as _json
            doc = c["steps"][0]["lib"]["json"]
            decoys = rng.sample([("input", '"0x%s"' % rand_bytes(rng, 4).hex()), ("type", rng.choice(['"0x0"', '"0x1"', '"0x2"', "0", "1", "2", '"legacy"'])), ("gasLimit", "%d" % rng.randrange(10**6)),
                                 ("from", '"0x%s"' % rand_bytes(rng, 20).hex()), ("hash", '"0x%s"' % rand_bytes(rng, 32).hex()), ("v", '"0x1b"'), ("r", '"0x1"'), ("s", '"0x1"'),
                                 ("yParity", "1"), ("chainID", "5"), ("chain_id", "7"), ("gas_price", "1"), ("Nonce", "99"), ("DATA", '"0xff"'), ("To", "null"),
                                 ("maxFeePerBlobGas", "1"), ("blobVersionedHashes", "[]"), ("access_list", "[]"), ("accesslist", "[]"), ("value ", "1"), ("", "1")], rng.randint(1, 4))
            inner = doc.strip()[1:-1]
            extra = ",".join("%s:%s" % (_json.dumps(k), val) for k, val in decoys)
            doc2 = "{" + (extra + "," + inner if rng.random() < 0.5 else inner + "," + extra) + "}"
            c["steps"][0]["lib"]["json"] = doc2
            c["x"]["decoys"] = [k for k, _ in decoys]
            yield from both(c)
            t = txgen.rand_tx(rng, txgen.LEGACY)
            t["chainId"] = None
            toks = txgen.tokens_for(rng, t)
            toks.pop("chainId", None)
            toks["accessList"] = rng.choice(["[]", "[]", '[["0x%s",[]]]' % rand_bytes(rng, 20).hex()])
            yield from both(lib_case("tx", {"op": "tx.process", "json": txgen.render(rng, toks), "secret": "%064x" % 1},
                                     {"cls": "access-list-without-chain-id", "expect": "reject", "bucket": "access-list-without-chain-id-rejected"}))
            # a kind-deciding key that is present with the value null decides the kind all the same (and is then not a valid value)
            t = txgen.rand_tx(rng, txgen.LEGACY)
            toks = txgen.tokens_for(rng, t)
            toks[rng.choice(["maxFeePerGas", "maxPriorityFeePerGas", "accessList"])] = "null"
            yield from both(lib_case("tx", {"op": "tx.process", "json": txgen.render(rng, toks), "secret": "%064x" % 1},
                                     {"cls": "kind-key-null", "expect": "reject", "bucket": "kind-key-null-rejected"}))
        if i % 10 == 0:
            # must-refuse shapes: exactly one fee-market field / a missing mandatory field
            t = txgen.rand_tx(rng, txgen.T1559)
            toks = txgen.tokens_for(rng, t)
            del toks[rng.choice(["maxPriorityFeePerGas", "maxFeePerGas"])]
            yield from both(lib_case("tx", {"op": "tx.process", "json": txgen.render(rng, toks), "secret": "%064x" % 1},
                                     {"cls": "one-fee-field", "expect": "reject", "bucket": "only-one-fee-field-rejected"}))
            t = txgen.rand_tx(rng)
            toks = txgen.tokens_for(rng, t)
            mandatory = [k for k in toks if k not in ("to", "accessList") and not (k == "chainId" and t["kind"] == txgen.LEGACY)]
            if t["kind"] == txgen.T2930:
                mandatory = [k for k in mandatory if k != "accessList"]
            gone = rng.choice(mandatory)
            del toks[gone]
            # removing a fee field from a 1559 document may change its kind; the result must still be a refusal
            yield from both(lib_case("tx", {"op": "tx.process", "json": txgen.render(rng, toks), "secret": "%064x" % 1},
                                     {"cls": "missing-" + gone, "expect": "reject", "bucket": "missing-field-rejected"}))
