"""C07 — every emitted RLP item is canonical and decodes to the original values."""
from .. import txgen
from ..gen import both, lib_case, rand_bytes
from ..ref import rlp
from ..ref import tx as reftx
from ..run.core import V

ID = "C07"
LEVEL = "exploration"
NEEDS = {"lib": ["dev", "release"]}
RULE = ("unsigned payloads and signed encodings from tx.process fed to a strict canonical-only RLP decoder that must consume them "
        "completely and return the original values; complete sweeps: calldata of every length 0..1100 x 3 kinds, every single "
        "byte value, integers of every byte width 1..32 x leading byte 01/7f/80/ff, access lists crossing 55/56, 255/256, "
        "65535/65536; via the verif-hooks re-export: rlp.len for every n in [0,70000] and 2^k-1,2^k,2^k+1 (k<=63) at both "
        "offsets, rlp.bytes / rlp.uint / rlp.list samples; distinct = distinct requests; non-trivial = decoder compared values")
REQUIRED = (["calldata-len-%s" % c for c in ("0", "1", "2..55", "56..255", "256..65535")] + ["single-byte<0x80", "single-byte>=0x80",
            "int-width-%d" % 1, "int-width-32", "int-zero", "list-payload-56..255", "list-payload-256..65535", "signed-decoded",
            "unsigned-decoded", "calldata-55", "calldata-56", "calldata-255", "calldata-256"])
KIND_PREFIX = {reftx.LEGACY: b"", reftx.T2930: b"\x01", reftx.T1559: b"\x02"}


def _items(x):
    """Expected decoded structure: ints -> minimal big-endian bytes."""
    if isinstance(x, int):
        return x.to_bytes((x.bit_length() + 7) // 8, "big")
    if isinstance(x, (bytes, bytearray)):
        return bytes(x)
    return [_items(e) for e in x]


def _strict_fields(v, what, raw, kind, expected, cls):
    pre = KIND_PREFIX[kind]
    if raw[:len(pre)] != pre:
        v.bad("C07/%s/type-byte" % cls, "%s does not start with the type byte of %s" % (what, kind))
        return None
    try:
        got = rlp.decode_strict(raw[len(pre):])
    except rlp.NonCanonical as e:
        v.bad("C07/%s/non-canonical" % cls, "%s is not canonical RLP: %s (%s...)" % (what, e, raw[:24].hex()))
        return None
    if got != expected:
        v.bad("C07/%s/values-differ" % cls, "%s decodes to values different from the original transaction" % what)
        return None
    return got


def judge_tx(case, obs):
    o = obs[0]
    xm = case["x"]
    v = V()
    if "ok" not in o and "err" not in o:
        return v
    cls = xm["cls"]
    tx = txgen.tx_from_meta(xm["tx"])
    if "ok" not in o:
        return v.bad("C07/%s/rejected" % cls, "well-formed transaction rejected: %s" % o.get("err"))
    r = o["ok"]
    f = reftx.fields(tx)
    exp_unsigned = _items(f + ([tx["chainId"], 0, 0] if tx["kind"] == reftx.LEGACY and tx.get("chainId") is not None else []))
    unsigned = bytes.fromhex(r["unsigned"])
    if _strict_fields(v, "unsigned payload", unsigned, tx["kind"], exp_unsigned, cls) is not None:
        v.bucket("unsigned-decoded")
    sig = r["sig"]
    rr, ss, par = int(sig["r"], 16), int(sig["s"], 16), sig["parity"]
    txgen.sig_shape_buckets(v, rr, ss)
    tail = [reftx.legacy_v(tx.get("chainId"), par) if tx["kind"] == reftx.LEGACY else par, rr, ss]
    signed = bytes.fromhex(r["signed"])
    if _strict_fields(v, "signed encoding", signed, tx["kind"], _items(f + tail), cls) is not None:
        v.bucket("signed-decoded")
    n = len(tx["data"])
    v.bucket("calldata-len-" + txgen.size_class(n))
    if n in (55, 56, 255, 256, 65535, 65536, 2**24 - 1, 2**24):
        v.bucket("calldata-%d" % n)
    if n == 1:
        v.bucket("single-byte<0x80" if tx["data"][0] < 0x80 else "single-byte>=0x80")
    for k in ("nonce", "gas", "value", "gasPrice", "maxFeePerGas", "maxPriorityFeePerGas", "chainId"):
        val = tx.get(k)
        if val is None:
            continue
        w = (val.bit_length() + 7) // 8
        v.bucket("int-zero" if w == 0 else "int-width-%d" % w)
    if tx["kind"] != reftx.LEGACY:
        pl = len(rlp.encode([[a, list(sl)] for a, sl in tx.get("accessList") or []]))
        v.bucket("list-payload-" + txgen.size_class(pl))
    return v


def judge_hook(case, obs):
    o = obs[0]
    req = case["steps"][0]["lib"]
    v = V()
    if o.get("nohook"):
        v.nontrivial = False
        return v.bucket("hook-unavailable")
    if "ok" not in o:
        if "err" in o:
            v.bad("C07/hook/error", "hook op failed: %s" % o["err"])
        return v
    got = bytes.fromhex(o["ok"]["bytes"])
    op = req["op"]
    if op == "rlp.len":
        n, off = int(req["n"]), req["offset"]
        want = rlp.enc_len(n, off)
        if got != want:
            v.bad("C07/rlp.len/header", "length header for n=%d offset=%#x is %s, canonical is %s" % (n, off, got.hex(), want.hex()))
        v.bucket("hook-len-short" if n < 56 else "hook-len-long-%dB" % len(want[1:]))
    elif op == "rlp.bytes":
        b = bytes.fromhex(req["bytes"])
        try:
            if rlp.decode_strict(got) != b:
                v.bad("C07/rlp.bytes/values-differ", "string of %d bytes decodes to something else" % len(b))
        except rlp.NonCanonical as e:
            v.bad("C07/rlp.bytes/non-canonical", "string of %d bytes (%s..) encodes non-canonically: %s" % (len(b), b[:4].hex(), e))
        v.bucket("hook-bytes")
    elif op == "rlp.uint":
        val = int(req["value"])
        try:
            if rlp.as_uint(rlp.decode_strict(got)) != val:
                v.bad("C07/rlp.uint/values-differ", "integer %d decodes to something else" % val)
        except rlp.NonCanonical as e:
            v.bad("C07/rlp.uint/non-canonical", "integer %#x encodes non-canonically: %s" % (val, e))
        v.bucket("hook-uint")
    elif op == "rlp.list":
        items = [bytes.fromhex(i) for i in req["items"]]
        want = rlp.enc_len(sum(len(i) for i in items), 0xC0) + b"".join(items)
        if got != want:
            v.bad("C07/rlp.list/encoding", "list of %d pre-encoded items (%d payload bytes) mis-encoded" % (len(items), sum(map(len, items))))
        v.bucket("hook-list")
    return v


JUDGES = {"tx": judge_tx, "hook": judge_hook}


def shards(tier, seed):
    T = tier == "thorough"
    out = []
    for k in txgen.KINDS:
        for part in range(4):
            out.append({"name": "calldata-%s-%d" % (k, part), "kind": k, "part": part,
                        "exhaustive": "calldata of every length 0..1100, kind %s" % k})
    out.append({"name": "single-bytes", "exhaustive": "every single calldata byte 0x00..0xff x 3 kinds"})
    out.append({"name": "int-widths", "exhaustive": "integers of every byte width 0..32 x leading byte 01/7f/80/ff, every numeric field"})
    out.append({"name": "access-lists", "reps": 3 if T else 1})
    out.append({"name": "big-calldata", "huge": T})
    for part in range(8):
        out.append({"name": "hook-len-%d" % part, "part": part, "exhaustive": "rlp.len for every n in [0,70000], offsets 0x80 and 0xc0"})
    out.append({"name": "hook-misc", "count": 20000 if T else 3000})
    out.append({"name": "random", "count": 30000 if T else 3000})
    return out


def _mk(rng, tx, cls, profile=None):
    toks = txgen.tokens_for(rng, tx, spell=("dec", "hex", "int"))
    c = lib_case("tx", {"op": "tx.process", "json": txgen.render(rng, toks, extra_ws=False), "secret": "%064x" % (rng.randrange(1, 2**200))},
                 {"cls": cls, "tx": txgen.tx_to_meta(tx)})
    if profile:
        c["profile"] = profile
        return [c]
    return list(both(c))


def _base(rng, kind):
    tx = txgen.rand_tx(rng, kind)
    tx["data"] = b""
    if kind != reftx.LEGACY:
        tx["accessList"] = []
    return tx


def gen(shard, rng, tier):
    name = shard["name"]
    if name.startswith("calldata-"):
        for n in range(shard["part"], 1101, 4):
            tx = _base(rng, shard["kind"])
            tx["data"] = rand_bytes(rng, n)
            yield from _mk(rng, tx, "calldata")
    elif name == "single-bytes":
        for e in txgen.rare_sigs():
            if e["what"] != "raw":
                tx = txgen.rare_sig_tx(e["what"], e["i"])
                toks = txgen.tokens_for(rng, tx, spell=("dec", "hex", "int"))
                yield from both(lib_case("tx", {"op": "tx.process", "json": txgen.render(rng, toks, extra_ws=False), "secret": "%064x" % txgen.RARE_KEY},
                                         {"cls": "rare-sig-shape", "tx": txgen.tx_to_meta(tx)}))
        for k in txgen.KINDS:
            for b in range(256):
                tx = _base(rng, k)
                tx["data"] = bytes([b])
                yield from _mk(rng, tx, "single-byte")
    elif name == "int-widths":
        for k in txgen.KINDS:
            for f in txgen.NUM_FIELDS[k]:
                for w in range(0, 33):
                    for first in (0x01, 0x7f, 0x80, 0xff):
                        if w == 0 and first != 0x01:
                            continue
                        val = 0 if w == 0 else int.from_bytes(bytes([first]) + rand_bytes(rng, w - 1), "big")
                        if f == "chainId" and k == reftx.LEGACY and val > (2**256 - 37) // 2:
                            continue
                        tx = _base(rng, k)
                        tx[f] = val
                        yield from _mk(rng, tx, "int-width")
    elif name == "access-lists":
        # list payload sizes on both sides of 55/56, 255/256, 65535/65536
        for _ in range(shard["reps"]):
            for k in (reftx.T2930, reftx.T1559):
                for naddr, nslots in ((0, 0), (1, 0), (2, 0), (1, 1), (2, 1), (3, 0), (1, 6), (1, 7), (2, 3), (7, 0), (8, 1), (11, 0),
                                      (12, 0), (1, 60), (30, 63), (31, 62), (40, 50), (64, 30), (1, 2000), (1, 2040), (1, 1985), (1, 1986), (255, 0), (256, 1), (300, 0), (1, 255), (1, 256), (1, 257), (1, 65535), (1, 65536), (2, 65537)):
                    tx = _base(rng, k)
                    tx["accessList"] = [(rand_bytes(rng, 20), [rand_bytes(rng, 32) for _ in range(nslots)]) for _ in range(naddr)]
                    yield from _mk(rng, tx, "access-list", profile=rng.choice(["dev", "release"]))
    elif name == "big-calldata":
        sizes = [65535, 65536, 65537, 70000]
        if shard.get("huge"):
            sizes += [2**24 - 1, 2**24, 2**24 + 1]
        for n in sizes:
            for k in txgen.KINDS:
                if n >= 2**24 and k != reftx.T1559:
                    continue
                tx = _base(rng, k)
                tx["data"] = bytes(n) if n >= 2**24 else rand_bytes(rng, n)
                yield from _mk(rng, tx, "big-calldata", profile="release")
    elif name.startswith("hook-len-"):
        part = shard["part"]
        ns = list(range(part, 70001, 8))
        if part == 0:
            for k in range(1, 64):
                ns += [2**k - 1, 2**k, 2**k + 1]
            ns.append(2**64 - 1)
        for n in ns:
            for off in (0x80, 0xC0):
                c = lib_case("hook", {"op": "rlp.len", "n": str(n), "offset": off}, {"cls": "rlp.len"})
                c["profile"] = "dev" if (n % 2) else "release"
                yield c
    elif name == "hook-misc":
        for b in range(256):
            yield from both(lib_case("hook", {"op": "rlp.bytes", "bytes": "%02x" % b}, {"cls": "rlp.bytes"}))
        for n in list(range(0, 300)) + [1023, 1024, 65535, 65536]:
            yield from both(lib_case("hook", {"op": "rlp.bytes", "bytes": rand_bytes(rng, n).hex()}, {"cls": "rlp.bytes"}))
        for w in range(0, 33):
            for first in (0x01, 0x7f, 0x80, 0xff):
                val = 0 if w == 0 else int.from_bytes(bytes([first]) + rand_bytes(rng, w - 1), "big")
                yield from both(lib_case("hook", {"op": "rlp.uint", "value": str(val)}, {"cls": "rlp.uint"}))
        for val in list(range(0, 300)) + [2**256 - 1]:
            yield from both(lib_case("hook", {"op": "rlp.uint", "value": str(val)}, {"cls": "rlp.uint"}))
        for _ in range(shard["count"]):
            k = rng.randrange(0, 6)
            items = [rlp.encode(rand_bytes(rng, rng.choice([0, 1, 5, 20, 32, 54, 55, 56, 60, 200]))) for _ in range(k)]
            yield lib_case("hook", {"op": "rlp.list", "items": [i.hex() for i in items]}, {"cls": "rlp.list"}, rng.choice(["dev", "release"]))
    elif name == "random":
        for i in range(shard["count"]):
            yield from _mk(rng, txgen.rand_tx(rng, big=(i % 50 == 0)), "random")
