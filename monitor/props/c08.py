"""C08 — EIP-712 digests equal the standard's hashStruct/encodeType definition."""
import json

from .. import tdcli, tdgen
from ..gen import both, lib_case
from ..ref import eip712, td
from ..run.core import V

ID = "C08"
LEVEL = "exploration"
NEEDS = {"lib": ["dev", "release"], "cli": ["dev", "release"]}
RULE = ("typeddata.hash(json) events on random well-typed documents (1..8 struct types, shared / repeated / recursive dependencies, "
        "multi-dimensional arrays, all atoms, boundary values in every numeric spelling, all 31 domain shapes); the oracle "
        "re-reads the JSON text, interprets it against the declared types and computes encodeType / hashStruct / the 0x1901 "
        "digest itself; digest, domainSeparator and messageHash must all match. Hook events: encodeType string equality, member "
        "type parse/print image. CLI events: a sample of the documents through `hash typeddata` (digest), `hash typeddata --message-hash` / `-m` (hashStruct of the message) and `sign typeddata` (signature recovers to the account over the digest); distinct = distinct documents; non-trivial = three digests compared")
REQUIRED = (["digests-equal", "repeat-before", "repeat-between", "repeat-after", "recursive-primary", "shared-dependency(diamond)",
             "negative-int", "array-multidim", "array-fixed", "array-of-structs", "struct-name-atom-lookalike", "deps>=3",
             "primary-not-first-in-name-order", "dep-sorts-before-primary", "empty-struct",
             "dep-name-is-prefix-of-another(sorts-differently-when-rendered)", "sibling-document(same-signatures-one-dependency-changed)", "struct-name-outside-identifier-grammar", "primary-type-is-the-domain-type", "message-references-domain-type", "hook-encode-type-equal", "hook-member-kind"]
            + ["atom-" + a for a in ("bool", "address", "string", "bytes", "bytesN", "uint", "int")]
            + ["domain-fields-%d" % k for k in range(1, 6)] + ["cli-accept-hashes-equal-and-signature-recovers", "array-dims>=32", "array-dims<32"])
LOOKALIKES = {"bytes0", "uint9", "int264", "bytes33", "uint320", "uint256x", "int7", "bytes64"}


def _features(v, types, primary):
    deps = eip712.dependencies(types, primary)
    if len(deps) >= 3:
        v.bucket("deps>=3")
    reach = set(deps) | {primary}
    for n in reach:
        for _, ts in types[n]:
            if eip712.struct_ref(ts) == primary:
                v.bucket("recursive-primary")
    dl = sorted(deps)
    for a in dl:
        for b in dl:
            if a != b and b.startswith(a) and b[len(a)] < "(":
                v.bucket("dep-name-is-prefix-of-another(sorts-differently-when-rendered)")
    if deps:
        names = sorted(deps | {primary}, key=lambda s: s.encode())
        if names[0] != primary:
            v.bucket("primary-not-first-in-name-order")
            v.bucket("dep-sorts-before-primary")
    # diamond: some dependency referenced from two different structs
    refs = {}
    for n in reach:
        for _, ts in types[n]:
            r = eip712.struct_ref(ts)
            if r:
                refs.setdefault(r, set()).add(n)
    if any(len(s) >= 2 for s in refs.values()):
        v.bucket("shared-dependency(diamond)")
    if "EIP712Domain" in deps:
        v.bucket("message-references-domain-type")
    for n in reach | {"EIP712Domain"}:
        if n in tdgen.WEIRD_STRUCT_NAMES:
            v.bucket("struct-name-outside-identifier-grammar")
        if n in LOOKALIKES:
            v.bucket("struct-name-atom-lookalike")
        if not types[n]:
            v.bucket("empty-struct")
        for _, ts in types[n]:
            t = eip712.parse_type(ts)
            dims = 0
            fixed = False
            while t[0] == "array":
                dims += 1
                fixed = fixed or t[2] is not None
                t = eip712.parse_type(t[1])
            if dims >= 2:
                v.bucket("array-multidim")
            if fixed:
                v.bucket("array-fixed")
            if dims and t[0] == "struct":
                v.bucket("array-of-structs")
            if t[0] != "struct":
                v.bucket("atom-" + t[0])
    v.bucket("domain-fields-%d" % len(types["EIP712Domain"]))


def judge_hash(case, obs):
    o = obs[0]
    v = V()
    if "ok" not in o and "err" not in o:
        return v
    text = case["steps"][0]["lib"]["json"]
    cls, out = td.classify(text)
    xcls = case["x"].get("cls", "doc")
    if cls == "reject":
        if "ok" in o:
            v.bad("C08/%s/nonconforming-accepted" % xcls, "document the reference refuses (%s) was hashed" % out)
        v.nontrivial = False
        return v.bucket("reference-refuses")
    if "ok" not in o:
        if cls == "accept":
            return v.bad("C08/%s/rejected" % xcls, "well-typed document rejected: %s" % str(o.get("err"))[:200])
        v.nontrivial = False
        return v.bucket("unspecified-rejected")
    if out is None:
        v.nontrivial = False
        return v.bucket("unspecified-accepted")
    r = o["ok"]
    names = ("digest", "domain_separator", "message_hash")
    bad = [n for n, w in zip(names, out) if r[n] != w.hex()]
    if bad:
        types, primary, _, _ = td.parse_document(text)
        v.bad("C08/%s/%s-mismatch" % (xcls, "+".join(bad)),
              "%s differ(s) from the EIP-712 reference; reference encodeType(%s) = %s" % (", ".join(bad), primary, eip712.encode_type(types, primary)[:300]))
        return v
    v.bucket("digests-equal")
    types, primary, _, _ = td.parse_document(text)
    _features(v, types, primary)
    for tag in case["x"].get("tags", []):
        v.bucket(tag)
    if '-' in text and any(tok in text for tok in (':-', '"-', '[-', ',-')):
        v.bucket("negative-int")
    return v


def judge_encode_type(case, obs):
    o = obs[0]
    v = V()
    if o.get("nohook"):
        v.nontrivial = False
        return v.bucket("hook-unavailable")
    if "ok" not in o and "err" not in o:
        return v
    req = case["steps"][0]["lib"]
    types = {n: [(m["name"], m["type"]) for m in ms] for n, ms in json.loads(req["types"]).items()}
    want = eip712.encode_type(types, req["name"])
    if "ok" not in o:
        return v.bad("C08/encode-type/error", "encodeType failed: %s" % o.get("err"))
    if o["ok"]["encoded"] != want:
        return v.bad("C08/encode-type/%s" % case["x"].get("cls", "graph"), "encodeType(%s) = %s, reference %s" % (req["name"], o["ok"]["encoded"][:300], want[:300]))
    return v.bucket("hook-encode-type-equal")


def judge_member_kind(case, obs):
    o = obs[0]
    v = V()
    if o.get("nohook"):
        v.nontrivial = False
        return v.bucket("hook-unavailable")
    if "ok" not in o:
        return v
    text = case["steps"][0]["lib"]["text"]
    image = o["ok"]["image"]
    dbg, _, disp = image.rpartition(" | ")
    if disp != text:
        v.bad("C08/member-kind/print", "member type %r prints back as %r" % (text, disp))
    # How the parser classified the text (struct reference or atom) is visible only through the debug form, whose shape is an
    # implementation detail: recorded as an observation class, never judged here. A misclassification changes encodeType /
    # the accepted values and is judged through the public API (C08 digests, C09 refusals).
    ref = eip712.struct_ref(text)
    v.bucket("hook-member-kind-struct-ref" if ref is not None else "hook-member-kind-atom")
    return v.bucket("hook-member-kind")


JUDGES = {"hash": judge_hash, "encode_type": judge_encode_type, "member_kind": judge_member_kind, "cli-doc": tdcli.make_td_judge(ID)}


def shards(tier, seed):
    T = tier == "thorough"
    out = [{"name": "docs-%d" % i, "count": 2000 if T else 200} for i in range(24)]
    out.append({"name": "domains", "reps": 6 if T else 1, "exhaustive": "all 31 legal EIP712Domain shapes"})
    out += [{"name": "cli-surface-%d" % i, "part": i} for i in range(8)]
    out.append({"name": "hook-graphs", "count": 30000 if T else 3000})
    out.append({"name": "hook-member-kind", "exhaustive": "member type image: every atom x every suffix combination to depth 3"})
    return out


def _hash_case(text, cls, tags=()):
    return lib_case("hash", {"op": "typeddata.hash", "json": text}, {"cls": cls, "tags": list(tags)})


def gen(shard, rng, tier):
    name = shard["name"]
    if name.startswith("cli-surface"):
        # a sample of the same documents through every command that reads a typed-data document (see tdcli)
        def lib_cases():
            for sub in [{"name": "docs-0", "count": 3000 if tier == "thorough" else 300}, {"name": "domains", "reps": 1}]:
                yield from gen(sub, rng, tier)
        yield from tdcli.from_lib_cases(lib_cases(), every=2, limit=3000 if tier == "thorough" else 300, part=shard["part"], parts=8)
        return
    if name.startswith("docs-"):
        for i in range(shard["count"]):
            shape = rng.choice([None, None, None, "repeat", "repeat", "recursive", "chain"])
            text, info = tdgen.rand_document(rng, shape=shape)
            tags = []
            if shape == "repeat":
                # where the repeated dependency sits among the primary's struct references
                ms = [eip712.struct_ref(ts) for _, ts in info["types"][info["primary"]]]
                ms = [m for m in ms if m]
                for dep in sorted({m for m in ms if ms.count(m) >= 2}):
                    first, last = ms.index(dep), len(ms) - 1 - ms[::-1].index(dep)
                    others_before = any(m != dep for m in ms[:first])
                    others_after = any(m != dep for m in ms[last + 1:])
                    tags.append("repeat-between" if (others_before and others_after) else "repeat-after" if others_before else "repeat-before")
            yield from both(_hash_case(text, shape or "random", tags))
            if i % 4 == 0:
                # a sibling document right after it in the same server processes: same struct signatures, one dependency changed
                sib = tdgen.sibling_document(rng, info)
                if sib:
                    yield from both(_hash_case(sib[0], "sibling", ["sibling-document(same-signatures-one-dependency-changed)"]))
                    # ... and back to the first one
                    yield from both(_hash_case(text, shape or "random", tags))
    elif name == "domains":
        dom = '"EIP712Domain":[{"name":"name","type":"string"}]'
        # member types with many array dimensions (the type grammar allows any number; an implementation's suffix buffer or
        # recursion does not): dynamic and fixed dimensions mixed, one or two elements per level
        for k in (4, 8, 16, 31, 32, 33, 48, 64):
            dims = [rng.choice(["[]", "[]", "[1]", "[2]"]) for _ in range(k)]
            leaf = lambda: str(rng.randrange(256))
            def build(level):
                if level < 0:
                    return leaf()
                n = {"[1]": 1, "[2]": 2}.get(dims[level], 1 if level % 5 else 2)
                # only the innermost few levels branch, so that the value stays small
                if level > 3 and dims[level] != "[2]":
                    n = 1
                return "[" + ",".join(build(level - 1) for _ in range(n)) + "]"
            if sum(1 for d in dims if d == "[2]") > 6:
                dims = ["[]" if (d == "[2]" and i > 5) else d for i, d in enumerate(dims)]
            yield from both(_hash_case('{"types":{%s,"P":[{"name":"v","type":"uint8%s"}]},"primaryType":"P","domain":{"name":"x"},"message":{"v":%s}}'
                                       % (dom, "".join(dims), build(k - 1)), "array-dims-%d" % k, ["array-dims>=32"] if k >= 32 else ["array-dims<32"]))
        for n in (255, 256, 257, 1000):
            # arrays with more than 255 elements, strings / bytes longer than 255 and 65535 bytes, structs with many members
            arr = ",".join(str(rng.randrange(256)) for _ in range(n))
            yield from both(_hash_case('{"types":{%s,"P":[{"name":"v","type":"uint8[]"},{"name":"w","type":"uint8[%d]"}]},"primaryType":"P",'
                                       '"domain":{"name":"x"},"message":{"v":[%s],"w":[%s]}}' % (dom, n, arr, arr), "big-array"))
            members = ",".join('{"name":"m%d","type":"uint16"}' % i for i in range(n if n <= 257 else 300))
            vals = ",".join('"m%d":%d' % (i, rng.randrange(65536)) for i in range(n if n <= 257 else 300))
            yield from both(_hash_case('{"types":{%s,"P":[%s]},"primaryType":"P","domain":{"name":"x"},"message":{%s}}' % (dom, members, vals), "many-members"))
        for nm in (1023, 1024, 1025, 1100):
            members = '{"name":"h","type":"Header"},' + ",".join('{"name":"m%d","type":"%s"}' % (i, "Q" if i % 2 else "Q[]") for i in range(nm))
            vals = '"h":{"v":7},' + ",".join('"m%d":%s' % (i, '{"w":true}' if i % 2 else "[]") for i in range(nm))
            yield from both(_hash_case('{"types":{%s,"P":[%s],"Header":[{"name":"v","type":"uint8"}],"Q":[{"name":"w","type":"bool"}]},"primaryType":"P",'
                                       '"domain":{"name":"x"},"message":{%s}}' % (dom, members, vals), "many-struct-members"))
        for n in (255, 256, 65535, 65536, 70000):
            s = "".join(rng.choice("abcdefghij") for _ in range(n))
            yield from both(_hash_case('{"types":{%s,"P":[{"name":"s","type":"string"},{"name":"b","type":"bytes"}]},"primaryType":"P",'
                                       '"domain":{"name":"%s"},"message":{"s":"%s","b":"0x%s"}}' % (dom, s[:300], s, s.encode().hex()), "long-string"))
        for _ in range(shard["reps"]):
            for dom in tdgen.domain_subsets():
                text, _ = tdgen.rand_document(rng, domain_fields=dom)
                yield from both(_hash_case(text, "domain-shape"))
                # the domain struct as primary type: the message is a second value of the domain type
                types = {"EIP712Domain": list(dom)}
                dv = tdgen.rand_value_tree(rng, types, "EIP712Domain", 2, tdgen.Budget(20))
                mv = tdgen.rand_value_tree(rng, types, "EIP712Domain", 2, tdgen.Budget(20))
                text = tdgen.assemble(rng, types, "EIP712Domain", tdgen.render_tree(rng, dv), tdgen.render_tree(rng, mv))
                yield from both(_hash_case(text, "primary-is-domain", ["primary-type-is-the-domain-type"]))
    elif name == "hook-graphs":
        for _ in range(shard["count"]):
            shape = rng.choice([None, "repeat", "repeat", "recursive", "chain"])
            types, primary = tdgen.rand_graph(rng, shape=shape)
            tj = json.dumps({n: [{"name": mn, "type": ts} for mn, ts in ms] for n, ms in types.items()})
            for n in ([primary] + ([rng.choice(list(types))] if rng.random() < 0.5 else [])):
                yield lib_case("encode_type", {"op": "eip712.encode_type", "types": tj, "name": n}, {"cls": shape or "random"},
                               rng.choice(["dev", "release"]))
    elif name == "hook-member-kind":
        atoms = (["bool", "address", "string", "bytes"] + ["bytes%d" % n for n in range(1, 33)] + ["uint%d" % n for n in range(8, 257, 8)]
                 + ["int%d" % n for n in range(8, 257, 8)] + ["Foo", "bytes0", "bytes33", "uint9", "uint7", "uint264", "int0", "int42", "uint320",
                                                            "Foo2", "a", "_x", "bytes32x", "uint256x", "T1", "Bool", "Address", "uintx"])
        sufs = [""]
        base = ["[]", "[0]", "[1]", "[3]", "[10]", "[255]"]
        for a in base:
            sufs.append(a)
            for b in base:
                sufs.append(a + b)
                for c in ("[]", "[2]"):
                    sufs.append(a + b + c)
        for a in atoms:
            for s in sufs:
                yield lib_case("member_kind", {"op": "eip712.member_kind", "text": a + s}, {"cls": "member-kind"},
                               "dev" if len(s) % 2 else "release")
        # array-suffix depth up to 64
        for d in (8, 16, 32, 64):
            yield from both(lib_case("member_kind", {"op": "eip712.member_kind", "text": "uint8" + "[]" * d}, {"cls": "member-kind"}))
            yield from both(lib_case("member_kind", {"op": "eip712.member_kind", "text": "Foo" + "[2]" * d}, {"cls": "member-kind"}))
