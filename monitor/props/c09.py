"""C09 — typed data that does not conform to its declared types is refused."""
import copy
import json

from .. import tdcli, tdgen
from ..gen import both, lib_case, rand_bytes, VOCAB_TYPES, VOCAB_TYPE_WORDS
from ..ref import eip712, td
from ..run.core import V

ID = "C09"
LEVEL = "exploration"
NEEDS = {"lib": ["dev", "release"], "cli": ["dev", "release"]}
RULE = ("typeddata.hash(json) events: a valid random document with exactly one injected fault at a random position (top level, nested "
        "struct, array element); complete sweep of every width N in 8..256 x signedness x boundary values (-2^(N-1)-1, -2^(N-1), "
        "2^(N-1)-1, 2^(N-1), 2^N-1, 2^N, -1, -(2^N-1)) x every spelling that can express them, at three nesting positions; bytesN "
        "with N+-1 bytes / no 0x / odd digits; fixed arrays with size +-1; missing / undeclared member; undefined type (also when only "
        "reachable through an empty array); wrong JSON kind per atom. The oracle classifies the *text*; must-reject documents "
        "must be err, in-range neighbours must hash to the reference digest. distinct = distinct documents; non-trivial = "
        "must-accept or must-reject classification compared")
REQUIRED = (["boundary-in-range-accepted", "reject-uint-above", "reject-uint-negative", "reject-int-above", "reject-int-below",
             "reject-bytesN-short", "reject-bytesN-long", "reject-bytes-no-prefix", "reject-bytes-odd", "reject-array-size-minus",
             "reject-array-size-plus", "reject-missing-member", "reject-undeclared-member", "reject-undefined-type",
             "reject-undefined-type-via-empty-array", "reject-wrong-kind", "fault-depth-0", "fault-depth-1", "fault-depth>=2",
             "fault-in-array-element", "fault-in-domain"]
            + ["sweep-uint%d" % n for n in (8, 128, 256)] + ["sweep-int%d" % n for n in (8, 128, 256)]
            + ["spelling-json-int", "spelling-json-float", "spelling-dec-string", "spelling-hex-string", "spelling-neg-hex-string", "spelling-json-bigint", "spelling-json-bigfloat"]
            + ["cli-reject-all-commands", "cli-accept-hashes-equal-and-signature-recovers", "length-congruent-mod-256"])


def judge(case, obs):
    o = obs[0]
    v = V()
    if "ok" not in o and "err" not in o:
        return v
    text = case["steps"][0]["lib"]["json"]
    xm = case["x"]
    cls, out = td.classify(text)
    fault = xm.get("fault", "none")
    if cls == "reject":
        if "ok" in o:
            return v.bad("C09/%s/accepted" % fault, "non-conforming document hashed (%s); fault: %s" % (out, xm.get("shown", "")[:160]))
        v.bucket("reject-" + fault if fault != "none" else "reject-other")
    elif cls == "accept":
        if "ok" not in o:
            return v.bad("C09/%s/conforming-rejected" % fault, "conforming document rejected (%s): %s" % (xm.get("shown", "")[:120], str(o.get("err"))[:160]))
        names = ("digest", "domain_separator", "message_hash")
        if any(o["ok"][n] != w.hex() for n, w in zip(names, out)):
            return v.bad("C09/%s/conforming-wrong-digest" % fault, "conforming document hashes differently from the reference (%s)" % xm.get("shown", "")[:160])
        v.bucket("boundary-in-range-accepted" if xm.get("boundary") else "conforming-accepted")
    else:
        if "ok" in o and out is not None and o["ok"]["digest"] != out[0].hex():
            return v.bad("C09/%s/unspecified-wrong-digest" % fault, "unspecified spelling accepted with an unnatural value (%s)" % xm.get("shown", "")[:160])
        v.nontrivial = False
        return v.bucket("unspecified")
    for t in xm.get("tags", []):
        v.bucket(t)
    return v


JUDGES = {"doc": judge, "cli-doc": tdcli.make_td_judge(ID)}


def shards(tier, seed):
    T = tier == "thorough"
    out = []
    for i, n in enumerate(range(8, 257, 8)):
        out.append({"name": "sweep-%d" % n, "n": n, "exhaustive": "uint%d/int%d x 8 boundary values x all spellings x 3 positions" % (n, n)})
    out += [{"name": "inject-%d" % i, "count": 25000 if T else 400} for i in range(16)]
    out += [{"name": "cli-surface-%d" % i, "part": i} for i in range(8)]
    return out


def spellings(v):
    """Every spelling that can express the integer v (raw JSON tokens with a tag)."""
    out = []
    if -(2**63) <= v < 2**64:
        out.append(("spelling-json-int", str(v)))
    else:
        # a bare integer beyond 64 bits: out of range stays must-reject whatever the spelling; in range it is unspecified
        out.append(("spelling-json-bigint", str(v)))
    if abs(v) < 2**53:
        out.append(("spelling-json-float", "%d.0" % v))
        out.append(("spelling-json-float", "%de0" % v))
    else:
        out.append(("spelling-json-bigfloat", "%d.0" % v))
    out.append(("spelling-dec-string", '"%d"' % v))
    if v >= 0:
        out.append(("spelling-hex-string", '"0x%x"' % v))
    else:
        out.append(("spelling-neg-hex-string", '"-0x%x"' % -v))
    return out


def _positions(ts, tok):
    """Three documents holding value `tok` of type `ts`: top level, nested struct, array element inside a nested struct."""
    dom = '"EIP712Domain":[{"name":"name","type":"string"}]'
    yield ('{"types":{%s,"P":[{"name":"v","type":"%s"}]},"primaryType":"P","domain":{"name":"x"},"message":{"v":%s}}' % (dom, ts, tok), 0)
    yield ('{"types":{%s,"P":[{"name":"a","type":"uint8"},{"name":"q","type":"Q"}],"Q":[{"name":"v","type":"%s"},{"name":"s","type":"string"}]},'
           '"primaryType":"P","domain":{"name":"x"},"message":{"a":1,"q":{"s":"","v":%s}}}' % (dom, ts, tok), 1)
    yield ('{"types":{%s,"P":[{"name":"q","type":"Q[]"}],"Q":[{"name":"vs","type":"%s[3]"}]},"primaryType":"P","domain":{"name":"x"},'
           '"message":{"q":[{"vs":[0,%s,"1"]}]}}' % (dom, ts, tok), 2)


def gen(shard, rng, tier):
    name = shard["name"]
    if name.startswith("cli-surface"):
        # a sample of the same documents through every command that reads a typed-data document (see tdcli)
        def lib_cases():
            for sub in [{"name": "sweep-%d" % n, "n": n} for n in (8, 64, 256)] + [{"name": "inject-0", "count": 4000 if tier == "thorough" else 500}]:
                yield from gen(sub, rng, tier)
        yield from tdcli.from_lib_cases(lib_cases(), every=3, limit=3000 if tier == "thorough" else 360, part=shard["part"], parts=8)
        return
    if name.startswith("sweep-"):
        n = shard["n"]
        for signed in (False, True):
            ts = ("int%d" if signed else "uint%d") % n
            lo, hi = (-(2 ** (n - 1)), 2 ** (n - 1) - 1) if signed else (0, 2**n - 1)
            vals = [-(2 ** (n - 1)) - 1, -(2 ** (n - 1)), 2 ** (n - 1) - 1, 2 ** (n - 1), 2**n - 1, 2**n, -1, -(2**n - 1), 0, -(2**n), 2 ** (n + 1) - 1]
            for val in vals:
                inside = lo <= val <= hi
                if signed:
                    fault = "none" if inside else ("int-above" if val > hi else "int-below")
                else:
                    fault = "none" if inside else ("uint-above" if val > hi else "uint-negative")
                for tag, tok in spellings(val):
                    for text, depth in _positions(ts, tok):
                        x = {"cls": "sweep", "fault": fault, "boundary": inside, "shown": "%s = %s" % (ts, tok),
                             "tags": [tag, "sweep-%s" % ts] + ([] if inside else ["fault-depth-%d" % depth if depth < 2 else "fault-depth>=2"])}
                        if depth == 2 and not inside:
                            x["tags"].append("fault-in-array-element")
                        yield from both(lib_case("doc", {"op": "typeddata.hash", "json": text}, x))
        return
    for _ in range(shard["count"]):
        _, info = tdgen.rand_document(rng, shape=rng.choice([None, None, "repeat", "recursive", "chain"]))
        types, primary = info["types"], info["primary"]
        dom, msg = copy.deepcopy(info["domain"]), copy.deepcopy(info["message"])
        types_tok = None
        kind = rng.choice(["int", "int", "bytesN", "bytes", "array", "missing", "undeclared", "undefined", "undefined-empty", "kind", "kind"])
        in_domain = rng.random() < 0.12 and not kind.startswith("undefined")
        root_ts, root = ("EIP712Domain", dom) if in_domain else (primary, msg)
        nodes = list(tdgen.walk(types, root_ts, root))
        fault, shown, tags = None, "", []

        def pick(pred):
            c = [nd for nd in nodes if pred(eip712.parse_type(nd[1]), nd)]
            return rng.choice(c) if c else None

        def put(nd, newval):
            path, ts, node, cont, key = nd
            if cont is None:
                return False
            cont[key] = newval
            return True

        if kind == "int":
            nd = pick(lambda t, nd: t[0] in ("uint", "int") and nd[3] is not None)
            if nd:
                t = eip712.parse_type(nd[1])
                n = t[1]
                if t[0] == "uint":
                    val = rng.choice([2**n, 2**n + 1, -1, -(2**n - 1), -rng.randrange(1, 2**n), 2 ** (n + 1), 2**256 if n < 256 else 2**256 + 5, -(2**63)])
                    fault = "uint-above" if val > 0 else "uint-negative"
                else:
                    val = rng.choice([2 ** (n - 1), -(2 ** (n - 1)) - 1, 2**n - 1, -(2**n - 1), 2**n, rng.randrange(2 ** (n - 1), 2**n), -rng.randrange(2 ** (n - 1) + 1, 2**n + 1)])
                    fault = "int-above" if val > 0 else "int-below"
                tag, tok = rng.choice(spellings(val))
                put(nd, tok)
                shown, tags = "%s = %s at %s" % (nd[1], tok, "/".join(map(str, nd[0]))), [tag]
        elif kind == "bytesN":
            nd = pick(lambda t, nd: t[0] == "bytesN" and nd[3] is not None)
            if nd:
                n = eip712.parse_type(nd[1])[1]
                # ... and lengths equal to N modulo 256 / 65536 (a length compared after a narrowing cast)
                m = rng.choice([n - 1, n + 1, n + 1, 0, 33, 64, 32, 32, n + 256, n + 256, n + 512, n + 65536, 256, 256 + 32] if n > 1 else [n + 1, 0, 33, 32, 257, 513, 65537])
                m = m if m != n else n + 1
                val = rand_bytes(rng, m)
                if m > n and rng.random() < 0.6:
                    val = val[:n] + bytes(m - n)  # the right value followed by zero padding (a full word, or one byte too many)
                put(nd, '"0x%s"' % val.hex())
                fault, shown = ("bytesN-short" if m < n else "bytesN-long"), "%s with %d bytes" % (nd[1], m)
                if m > n and (m - n) % 256 == 0:
                    tags.append("length-congruent-mod-256")
        elif kind == "bytes":
            nd = pick(lambda t, nd: t[0] in ("bytes", "bytesN") and nd[3] is not None)
            if nd:
                t = eip712.parse_type(nd[1])
                n = t[1] if t[0] == "bytesN" else rng.randint(1, 40)
                if rng.random() < 0.5:
                    put(nd, '"%s"' % rand_bytes(rng, n).hex())
                    fault, shown = "bytes-no-prefix", "%s without 0x" % nd[1]
                else:
                    put(nd, '"0x%s%s"' % (rand_bytes(rng, n).hex(), rng.choice("0123456789abcdef")) if rng.random() < 0.7 else '"0x%s"' % rand_bytes(rng, n).hex()[:-1])
                    fault, shown = "bytes-odd", "%s with an odd number of digits" % nd[1]
        elif kind == "array":
            nd = pick(lambda t, nd: t[0] == "array" and t[2] is not None and isinstance(nd[2], list))
            if nd:
                t = eip712.parse_type(nd[1])
                lst = nd[2]
                if t[2] > 0 and rng.random() < 0.5:
                    lst.pop(rng.randrange(len(lst)))
                    fault = "array-size-minus"
                elif rng.random() < 0.12 and eip712.parse_type(t[1])[0] in ("uint", "int", "bool", "address"):
                    # the declared size plus 256 (or 65536) elements
                    extra = 256 if rng.random() < 0.8 else 65536
                    one = tdgen.rand_value_tree(rng, types, t[1], 1, tdgen.Budget(10))
                    lst.extend([one] * extra)
                    fault = "array-size-plus"
                    tags.append("length-congruent-mod-256")
                else:
                    lst.insert(rng.randrange(len(lst) + 1), tdgen.rand_value_tree(rng, types, t[1], 1, tdgen.Budget(10)))
                    fault = "array-size-plus"
                shown = "%s with %d elements at %s" % (nd[1], len(lst), "/".join(map(str, nd[0])))
        elif kind == "missing":
            nd = pick(lambda t, nd: t[0] == "struct" and isinstance(nd[2], dict) and len(nd[2]) > 0)
            if nd:
                k = rng.choice(list(nd[2]))
                del nd[2][k]
                fault, shown = "missing-member", "member %s missing at %s" % (k, "/".join(map(str, nd[0])) or "<root>")
        elif kind == "undeclared" and rng.random() < 0.25:
            # the struct type declares one member twice AND the value carries an undeclared member: still an undeclared member
            nd = pick(lambda t, nd: t[0] == "struct" and isinstance(nd[2], dict) and len(nd[2]) > 0 and eip712.parse_type(nd[1])[1] != "EIP712Domain")
            if nd:
                sname = eip712.parse_type(nd[1])[1]
                types = copy.deepcopy(types)
                dup = rng.choice(types[sname])
                types[sname].insert(rng.randrange(len(types[sname]) + 1), dup)
                k = "fee"
                while k in nd[2]:
                    k += "_"
                for other in nodes:
                    if eip712.parse_type(other[1]) == ("struct", sname) and isinstance(other[2], dict):
                        other[2][k] = rng.choice(["1", '"x"', "[]"])
                fault, shown = "undeclared-member", "undeclared member %r in %s, which declares %r twice" % (k, sname, dup[0])
        elif kind == "undeclared":
            nd = pick(lambda t, nd: t[0] == "struct" and isinstance(nd[2], dict))
            if nd:
                k = rng.choice(["extra", "Extra", "name2", "", " ", "value "] )
                while k in nd[2]:
                    k += "_"
                nd[2][k] = rng.choice(["1", '"x"', "null", "[]", "{}"])
                fault, shown = "undeclared-member", "undeclared member %r at %s" % (k, "/".join(map(str, nd[0])) or "<root>")
        elif kind in ("undefined", "undefined-empty"):
            # rename one referenced struct type in a member declaration to an undefined name
            reach = eip712.dependencies(types, root_ts) | {root_ts}
            cands = [(n, i) for n in reach for i, (mn, ts) in enumerate(types[n]) if eip712.struct_ref(ts)]
            if kind == "undefined-empty":
                # append a member whose type is only reachable through an array that stays empty
                host = rng.choice(sorted(reach - {"EIP712Domain"}) or [primary])
                if host != "EIP712Domain":
                    types = copy.deepcopy(types)
                    mn = "ghost"
                    types[host] = types[host] + [(mn, "Nowhere" + rng.choice(["[]", "[0]", "[][]"]))]
                    for nd in nodes:
                        if eip712.parse_type(nd[1]) == ("struct", host) and isinstance(nd[2], dict):
                            nd[2][mn] = []
                    fault, shown = "undefined-type-via-empty-array", "member of undefined type Nowhere[] (empty) in %s" % host
            elif cands:
                n, i = rng.choice(cands)
                if n != "EIP712Domain":
                    types = copy.deepcopy(types)
                    mn, ts = types[n][i]
                    ref = eip712.struct_ref(ts)
                    newname = rng.choice([ref + "Undefined", "uint", "int", "uint" if "uint" not in types else "fixed", "byte", "bytes0", "uint264", "Uint256", "bool ",
                                          rng.choice(VOCAB_TYPES), rng.choice(["address", "uint256", "string", "bytes32", "bool"]) + " " + rng.choice(VOCAB_TYPE_WORDS)])
                    if newname in types:
                        newname = ref + "Undefined"
                    types[n][i] = (mn, newname + ts[len(ref):] if ts.startswith(ref) else ts.replace(ref, newname, 1))
                    fault, shown = "undefined-type", "%s.%s declared as %s" % (n, mn, types[n][i][1])
        else:
            nd = pick(lambda t, nd: nd[3] is not None)
            if nd:
                t = eip712.parse_type(nd[1])
                wrong = {"bool": ['"true"', "1", "0", "null", "[]"], "address": ["5", "true", "null", '"0x1234"', "{}"],
                         "string": ["5", "true", "null", "[]", "{}"], "bytes": ["5", "true", "null", "[]"], "bytesN": ["5", "true", "null", "[1]"],
                         "uint": ["true", "null", "[]", "{}", '""', '"0x"', '"abcz"', "[1]"], "int": ["true", "null", "[]", "{}", '""', '"-"', '"zz"'],
                         "array": ["5", '"[]"', "null", "{}", "true"], "struct": ["5", '"{}"', "null", "[]", "true"]}[t[0]]
                tok = rng.choice(wrong)
                if t[0] in ("struct", "array") and rng.random() < 0.5:
                    # the right value, but as a JSON *string* holding its JSON text
                    tok = json.dumps(tdgen.render_tree(rng, nd[2]))
                elif t[0] in ("uint", "int", "bool") and rng.random() < 0.2:
                    tok = "[%s]" % nd[2] if rng.random() < 0.5 else '{"value":%s}' % nd[2]
                put(nd, tok)
                fault, shown = "wrong-kind", "%s = %s at %s" % (nd[1], tok, "/".join(map(str, nd[0])))
        if fault is None:
            continue
        depth = len(nd[0]) if kind not in ("undefined", "undefined-empty") and nd else 0
        tags = list(tags)
        if kind not in ("undefined", "undefined-empty"):
            tags.append("fault-depth-%d" % depth if depth < 2 else "fault-depth>=2")
            if any(isinstance(p, int) for p in nd[0]):
                tags.append("fault-in-array-element")
            if in_domain:
                tags.append("fault-in-domain")
        text = tdgen.assemble(rng, types, primary, tdgen.render_tree(rng, dom), tdgen.render_tree(rng, msg), types_tok)
        yield from both(lib_case("doc", {"op": "typeddata.hash", "json": text}, {"cls": "inject", "fault": fault, "shown": shown, "tags": tags}))
