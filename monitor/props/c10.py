"""C10 — personal-message digest is the EIP-191 prefixed Keccak-256."""
from .. import cligen
from ..gen import both, lib_case, rand_bytes
from ..ref import eth, secp
from ..run.core import V, abnormal

ID = "C10"
LEVEL = "exploration"
NEEDS = {"lib": ["dev", "release"], "cli": ["dev", "release"]}
RULE = ("msg.hash(bytes) events for every length 0..1100, 10^k-1/10^k/10^k+1 (k<=6 quick, <=7 thorough), all byte values, invalid UTF-8, "
        "content that looks like the prefix or like digits, compared with own Keccak-256 of 0x19 'Ethereum Signed Message:\\n' "
        "decimal(len) m; CLI `hash message` and `sign message` through file and stdin (the signature must recover to the account "
        "over that digest); thorough tier: sparse messages of 2^31-1 .. 2^32+5 bytes through the CLI against a streaming C Keccak-256. "
        "distinct = distinct messages; non-trivial = digest compared")
REQUIRED = (["len-0", "len-1-digit", "len-2-digits", "len-3-digits", "len-4-digits", "len-5-digits", "len-6-digits", "invalid-utf8",
             "looks-like-prefix", "looks-like-hex-or-json", "all-byte-values", "cli-hash-file", "cli-hash-stdin", "cli-sign-recovers", "len-9", "len-10", "len-99",
             "len-100", "len-999", "len-1000", "len-9999", "len-10000", "len-99999", "len-100000", "len-999999", "len-1000000", "len-1000001", "len-7-digits"])


def _len_buckets(v, n):
    v.bucket("len-0" if n == 0 else "len-%d-digit%s" % (len(str(n)), "" if len(str(n)) == 1 else "s"))
    if n in (9, 10, 11, 99, 100, 101, 999, 1000, 1001, 9999, 10000, 10001, 99999, 100000, 100001, 999999, 1000000, 1000001):
        v.bucket("len-%d" % n)


def judge_lib(case, obs):
    o = obs[0]
    v = V()
    if "ok" not in o:
        if "err" in o:
            v.bad("C10/lib/error", "hashing failed: %s" % o["err"])
        return v
    m = bytes.fromhex(case["steps"][0]["lib"]["bytes"])
    if o["ok"]["digest"] != eth.eip191_digest(m).hex():
        return v.bad("C10/%s/digest-mismatch" % case["x"]["cls"], "digest of a %d-byte message (%s..) differs from the EIP-191 reference" % (len(m), m[:12].hex()))
    _len_buckets(v, len(m))
    for t in case["x"].get("tags", []):
        v.bucket(t)
    try:
        m.decode("utf-8")
    except UnicodeDecodeError:
        v.bucket("invalid-utf8")
    return v


def judge_cli(case, obs):
    o = obs[0]
    xm = case["x"]
    v = V()
    if abnormal(o) or "exit" not in o:
        return v
    m = bytes.fromhex(xm["msg"])
    want = eth.eip191_digest(m)
    if o["exit"] != 0:
        return v.bad("C10/cli-%s/failed" % xm["mode"], "exit %d: %s" % (o["exit"], o["stderr"][-150:]))
    out = o["stdout"].strip()
    if xm["mode"] == "hash":
        if out != "0x" + want.hex():
            return v.bad("C10/cli-hash/digest-mismatch", "`hash message` printed %s for a %d-byte message, reference 0x%s" % (out[:70], len(m), want.hex()))
        v.bucket("cli-hash-" + xm["channel"])
    else:
        if len(out) != 132 or not out.startswith("0x"):
            return v.bad("C10/cli-sign/format", "`sign message` printed %r" % out[:140])
        r, s, vv = int(out[2:66], 16), int(out[66:130], 16), int(out[130:], 16)
        x = int(xm["key"], 16)
        if vv not in (27, 28) or secp.recover(want, r, s, vv - 27) != secp.pubkey(x):
            return v.bad("C10/cli-sign/digest-or-signer", "`sign message` output does not recover to the account over the EIP-191 digest")
        v.bucket("cli-sign-recovers")
    _len_buckets(v, len(m))
    return v


JUDGES = {"lib": judge_lib, "cli": judge_cli}

# Message lengths around 2^31 and 2^32 (thorough tier only): the decimal length in the envelope has 10 digits and no longer fits
# 32 bits. The messages are sparse files (a few random pages, zeros elsewhere); the reference digest comes from the streaming C
# Keccak-256 in tools/keccak256.c, which is first checked against the Python model. The tool needs about 2x the message size in
# memory: when the machine cannot provide that, or the run ends in any way other than "exit 0 with a digest", the observation is
# recorded as not completed - resource exhaustion is not what this property is about, so it is never an alarm.
GIANT = [2**31 - 1, 2**31, 2**31 + 3, 2**32 - 1, 2**32, 2**32 + 5]


def extra_phases(ctx, tier, seed):
    import os
    import subprocess
    import random
    from ..ref import keccak
    from ..run import build, core
    extra = {"buckets": {}, "evaluations": 0, "distinct": 0, "giant_messages": []}
    viol = []
    if tier != "thorough":
        return extra, viol
    tool = build.build_keccak_tool()
    rng = random.Random(seed * 7919 + 10)
    # trust the C reference only after it agrees with the Python model, with and without a prefix, across block boundaries
    d = os.path.join(ctx.run_dir, "giant")
    os.makedirs(d, exist_ok=True)
    small = os.path.join(d, "small")
    for n in (0, 1, 135, 136, 137, 271, 272, 273, 5000, 200001):
        data = rand_bytes(rng, n)
        with open(small, "wb") as f:
            f.write(data)
        pre = rand_bytes(rng, rng.randrange(0, 40))
        got = subprocess.run([tool, "-p", pre.hex(), small], stdout=subprocess.PIPE, check=True).stdout.decode().strip()
        if got != keccak.keccak256(pre + data).hex():
            raise core.HarnessError("C Keccak-256 reference disagrees with the Python model on %d bytes" % n)
    os.remove(small)
    cli = ctx.cli("release").path
    for n in GIANT:
        avail = 0
        for line in open("/proc/meminfo"):
            if line.startswith("MemAvailable:"):
                avail = int(line.split()[1]) * 1024
        rec = {"length": n}
        extra["giant_messages"].append(rec)
        if avail < 3 * n + (4 << 30):
            rec["outcome"] = "skipped: %d MiB available" % (avail >> 20)
            extra["buckets"]["giant-skipped-low-memory"] = extra["buckets"].get("giant-skipped-low-memory", 0) + 1
            continue
        path = os.path.join(d, "m%d" % n)
        try:
            with open(path, "wb") as f:
                f.truncate(n)
                for off in [0, n - 4096, n // 2] + [rng.randrange(0, n - 4096) for _ in range(5)] + [2**31 - 8, 2**32 - 8]:
                    if 0 <= off <= n - 16:
                        f.seek(off)
                        f.write(rand_bytes(rng, min(4096, n - off)))
            prefix = b"\x19Ethereum Signed Message:\n" + str(n).encode()
            want = subprocess.run([tool, "-p", prefix.hex(), path], stdout=subprocess.PIPE, check=True).stdout.decode().strip()
            try:
                p = subprocess.run([cli, "hash", "message", path], stdout=subprocess.PIPE, stderr=subprocess.PIPE, timeout=1800,
                                   env={"PATH": "/usr/bin:/bin", "RUST_BACKTRACE": "0"}, cwd=d, preexec_fn=core.child_setup(None, 3600))
            except subprocess.TimeoutExpired:
                rec["outcome"] = "not completed: wall-clock watchdog"
                extra["buckets"]["giant-not-completed"] = extra["buckets"].get("giant-not-completed", 0) + 1
                continue
            out = p.stdout.decode("utf-8", "replace").strip()
            if p.returncode != 0 or len(out) != 66:
                rec["outcome"] = "not completed: exit %s %s" % (p.returncode, p.stderr[-200:].decode("utf-8", "replace"))
                extra["buckets"]["giant-not-completed"] = extra["buckets"].get("giant-not-completed", 0) + 1
                continue
            extra["evaluations"] += 1
            extra["distinct"] += 1
            rec["digest"] = out
            rec["outcome"] = "compared"
            b = "giant-len-%s" % ("<2^32" if n < 2**32 else ">=2^32")
            extra["buckets"][b] = extra["buckets"].get(b, 0) + 1
            if out != "0x" + want:
                rec["outcome"] = "MISMATCH"
                viol.append({"sig": "C10/cli-hash/giant-digest-mismatch", "msg": "`hash message` of a %d-byte message printed %s, streaming reference 0x%s" % (n, out, want),
                             "case": {"giant": n, "note": "sparse file of that length; see monitor/props/c10.py extra_phases"}, "obs": [{"stdout": out}]})
        finally:
            try:
                os.remove(path)
            except OSError:
                pass
    return extra, viol


def shards(tier, seed):
    T = tier == "thorough"
    out = [{"name": "lengths-%d" % i, "part": i, "exhaustive": "every message length 0..1100"} for i in range(4)]
    out += [{"name": "powers-%d" % k, "k": k} for k in range(1, (8 if T else 7))]
    out.append({"name": "content", "count": 40000 if T else 1500})
    out += [{"name": "cli-%d" % i, "count": 1500 if T else 40} for i in range(8)]
    return out


def gen(shard, rng, tier):
    name = shard["name"]
    if name.startswith("lengths-"):
        for n in range(shard["part"], 1101, 4):
            yield from both(lib_case("lib", {"op": "msg.hash", "bytes": rand_bytes(rng, n).hex()}, {"cls": "length"}))
    elif name.startswith("powers-"):
        for k in (shard["k"],):
            for n in (10**k - 1, 10**k, 10**k + 1):
                m = rand_bytes(rng, min(n, 4096)) * (n // 4096 + 1)
                c = lib_case("lib", {"op": "msg.hash", "bytes": m[:n].hex()}, {"cls": "power-of-ten"})
                c["profile"] = "release" if n > 20000 else rng.choice(["dev", "release"])
                yield c
    elif name == "content":
        yield from both(lib_case("lib", {"op": "msg.hash", "bytes": bytes(range(256)).hex()}, {"cls": "content", "tags": ["all-byte-values"]}))
        for b in range(256):
            yield lib_case("lib", {"op": "msg.hash", "bytes": "%02x" % b}, {"cls": "content"}, "dev" if b % 2 else "release")
        pre = b"\x19Ethereum Signed Message:\n"
        for _ in range(shard["count"]):
            k = rng.randrange(6)
            tags = []
            if k == 0:
                m = pre + str(rng.randrange(100)).encode() + rand_bytes(rng, rng.randrange(40))
                tags = ["looks-like-prefix"]
            elif k == 1:
                m = str(rng.randrange(10**rng.randint(1, 12))).encode()
            elif k == 2:
                m = rng.choice([b"\xff", b"\xc3", b"\xed\xa0\x80", b"\xf8\x88\x80\x80\x80", b"\x80abc", b"ab\xc0\xaf"]) + rand_bytes(rng, rng.randrange(20))
            elif k == 3:
                m = ("héllo \U0001f600 " * rng.randint(1, 5)).encode()
            elif k == 4 and rng.random() < 0.5:
                # text that looks like an encoding of something else: it is still hashed as the bytes given
                h = rand_bytes(rng, rng.choice([1, 2, 20, 32, 33])).hex()
                m = rng.choice([b"0x" + h.encode(), b"0x", b"0X" + h.encode(), h.encode(), b"0x" + h.upper().encode(), b"0x" + h.encode() + b"\n",
                                b"12", b"0", b"{}", b"[]", b"\"hi\"", b"true", b"0x0", b"0x1"])
                tags = ["looks-like-hex-or-json"]
            elif k == 4:
                m = rng.choice([b"\n", b"\r\n", b"\x00", b" ", b"\x19", b"\x00" * 32, b"hello world!", b"Hello World!"])
            else:
                m = rand_bytes(rng, rng.randrange(0, 300))
            yield from both(lib_case("lib", {"op": "msg.hash", "bytes": m.hex()}, {"cls": "content", "tags": tags}))
    else:
        for _ in range(shard["count"]):
            n = rng.choice([0, 1, 9, 10, 11, 12, 99, 100, 101, 999, 1000, 1001, 9999, 10000, rng.randrange(0, 3000)])
            m = rand_bytes(rng, n)
            if rng.random() < 0.12:
                # a message that already carries the envelope (or something like it) is wrapped again like any other
                inner = rand_bytes(rng, rng.randrange(0, 30))
                m = rng.choice([b"\x19Ethereum Signed Message:\n%d" % len(inner) + inner, b"\x19Ethereum Signed Message:\n", b"\x19Ethereum Signed Message:\n32" + rand_bytes(rng, 32),
                                b"Ethereum Signed Message:\n5hello", b"\x19\x01" + rand_bytes(rng, 64), b"\x19\x00" + rand_bytes(rng, 20)])
            elif rng.random() < 0.15:
                h = rand_bytes(rng, rng.choice([1, 2, 20, 32])).hex()
                m = rng.choice([b"0x" + h.encode(), b"0x", h.encode(), b"0x" + h.encode() + b"\n", b"12", b"{}"])
            elif rng.random() < 0.3:
                # bytes that text-oriented input handling tends to eat
                m = rng.choice([b"\n", b"hello\n", b"hello\r\n", b"\nhello", b" hello ", b"hello\n\n", b"\x00", b"hello\x00", b"\xef\xbb\xbfhello", b"\xff\n",
                                m + b"\n", b"\n" + m])
            acc = cligen.rand_account(rng, simple=True)
            mode = rng.choice(["hash", "hash", "sign"])
            path, files, stdin_hex = cligen.input_channel(rng, m, "msg.bin")
            channel = "stdin" if path == "-" else "file"
            if mode == "hash":
                argv, env = ["hash", "message", path], {}
                key = 0
            else:
                aargv, env = cligen.account_args(rng, acc)
                argv = ["sign"] + aargv + ["message", path]
                key = cligen.account_key(acc)
            yield {"j": "cli", "profile": "dev" if rng.random() < 0.25 else "release",
                   "x": {"cls": "cli", "mode": mode, "channel": channel, "msg": m.hex(), "key": "%064x" % key},
                   "steps": [{"cli": {"argv": argv, "env": env, "files": files, "stdin_hex": stdin_hex}}]}
