"""C11 — chain replay protection is never dropped silently."""
from .. import cligen, txgen
from ..gen import boundary_scalar, lib_case, rand_bytes
from ..ref import eth, rlp, secp
from ..ref import tx as reftx
from ..run.core import V, abnormal
from .c06 import check_signed

ID = "C11"
LEVEL = "exploration"
NEEDS = {"lib": ["dev", "release"], "cli": ["dev", "release"]}
C_MAX = (2**256 - 37) // 2
RULE = ("`hdwallet sign transaction [--allow-missing-relay-protection] [--signature-only]` process runs (dev and release binaries) "
        "plus library tx.process events: legacy without chain id is refused unless the flag is given (then v in {27,28}); with chain "
        "id c the decoded v == 35+2c+yParity as a Python integer, the signer is recovered from the reference hash whose payload "
        "ends in (c,0,0) and NOT from the hash for c-1, c+1, 0 or no chain id; typed kinds carry c as first field; c beyond "
        "(2^256-37)/2 must end in an ordinary error; distinct = distinct (document, flags, account); non-trivial = decision compared")
REQUIRED = ["cli-nochain-noflag-refused", "cli-nochain-flag-v27", "cli-nochain-flag-v28", "cli-nochain-noflag-sigonly-refused",
            "cli-legacy-chain-parity0", "cli-legacy-chain-parity1", "cli-eip2930-chain", "cli-eip1559-chain", "cli-sigonly-chain",
            "lib-legacy-chain-parity0", "lib-legacy-chain-parity1", "chain=0", "chain=1", "chain=2^64-1", "chain=2^64", "chain=2^128",
            "chain=c_max", "chain>c_max-refused", "other-chain-does-not-validate", "cli-typed-flag-irrelevant"]
SPECIAL = [0, 1, 2, 2**31, 2**32 - 1, 2**63, 2**64 - 1, 2**64, 2**64 + 1, 2**128, 2**200, 2**254, C_MAX - 1, C_MAX]
TOO_BIG = [C_MAX + 1, C_MAX + 2, 2**255, 2**255 + 1, 2**256 - 2, 2**256 - 1]


def _chain_buckets(v, c):
    for name, val in (("chain=0", 0), ("chain=1", 1), ("chain=2^64-1", 2**64 - 1), ("chain=2^64", 2**64), ("chain=2^128", 2**128), ("chain=c_max", C_MAX)):
        if c == val:
            v.bucket(name)


def _negative_recover(v, cls, tx, r, s, par, x):
    """The signature must not validate the same transaction under another chain id."""
    pub = secp.pubkey(x)
    c = tx.get("chainId")
    others = []
    if c is not None:
        others = [c + 1, c - 1 if c > 0 else None, 0 if c != 0 else None]
        if tx["kind"] == reftx.LEGACY:
            others.append("none")
    for oc in others:
        if oc is None:
            continue
        t2 = dict(tx)
        t2["chainId"] = None if oc == "none" else oc
        h2 = reftx.signing_hash(t2)
        if secp.recover(h2, r, s, par) == pub or secp.verify(pub, h2, r, s):
            v.bad("C11/%s/validates-under-other-chain" % cls, "signature for chainId %s also validates chainId %s" % (c, oc))
            return
    if others:
        v.bucket("other-chain-does-not-validate")


def judge_lib(case, obs):
    o = obs[0]
    xm = case["x"]
    v = V()
    if "ok" not in o and "err" not in o:
        return v
    tx = txgen.tx_from_meta(xm["tx"])
    c = tx.get("chainId")
    if tx["kind"] == reftx.LEGACY and c is not None and c > C_MAX:
        if "ok" in o:
            return v.bad("C11/chain>c_max/accepted", "legacy chainId %d accepted although 35+2c+1 does not fit 256 bits" % c)
        return v.bucket("chain>c_max-refused")
    if "ok" not in o:
        return v.bad("C11/%s/rejected" % xm["cls"], "transaction with chainId %s rejected: %s" % (c, o.get("err")))
    x = int(case["steps"][0]["lib"]["secret"], 16)
    if not check_signed(v, xm["cls"], tx, o["ok"], x):
        v.viol = [("C11" + sig[3:], msg) for sig, msg in v.viol]
        return v
    v.viol = [("C11" + sig[3:], msg) for sig, msg in v.viol]
    sig = o["ok"]["sig"]
    r, s, par = int(sig["r"], 16), int(sig["s"], 16), sig["parity"]
    _negative_recover(v, xm["cls"], tx, r, s, par, x)
    if tx["kind"] == reftx.LEGACY and c is not None:
        v.bucket("lib-legacy-chain-parity%d" % par)
    if c is not None:
        _chain_buckets(v, c)
    return v


def _decode_cli_tx(stdout):
    t = stdout.strip()
    if not t.startswith("0x"):
        raise ValueError("output does not start with 0x")
    return bytes.fromhex(t[2:])


def judge_cli(case, obs):
    o = obs[0]
    xm = case["x"]
    v = V()
    if abnormal(o) or "exit" not in o:
        return v
    tx = txgen.tx_from_meta(xm["tx"])
    c = tx.get("chainId")
    flag, sigonly = xm["flag"], xm["sigonly"]
    ok = o["exit"] == 0
    legacy = tx["kind"] == reftx.LEGACY
    must_refuse = (legacy and c is None and not flag) or (legacy and c is not None and c > C_MAX)
    if must_refuse:
        if ok or o["stdout"].strip():
            what = "nochain-noflag" if c is None else "chain>c_max"
            return v.bad("C11/cli-%s/signed" % what, "exit %d with output %r for a legacy transaction %s" % (
                o["exit"], o["stdout"][:80], "without chain id and without the override flag" if c is None else "with chainId %d" % c))
        if c is None:
            v.bucket("cli-nochain-noflag-sigonly-refused" if sigonly else "cli-nochain-noflag-refused")
        else:
            v.bucket("chain>c_max-refused")
        return v
    if not ok:
        return v.bad("C11/cli-%s/refused" % xm["cls"], "exit %d (%s) for a signable transaction (chainId %s, flag %s)" % (o["exit"], o["stderr"][-120:], c, flag))
    x = int(xm["key"], 16)
    h = reftx.signing_hash(tx)
    if sigonly:
        t = o["stdout"].strip()
        if len(t) != 132 or not t.startswith("0x"):
            return v.bad("C11/cli-sigonly/format", "signature-only output is %r" % t[:140])
        r, s, vv = int(t[2:66], 16), int(t[66:130], 16), int(t[130:132], 16)
        if vv not in (27, 28):
            return v.bad("C11/cli-sigonly/v", "signature-only v byte is %d" % vv)
        par = vv - 27
    else:
        try:
            raw = _decode_cli_tx(o["stdout"])
            dtx, vv, r, s = reftx.decode_signed(raw)
        except (ValueError, rlp.NonCanonical, reftx.Malformed) as e:
            return v.bad("C11/cli-%s/undecodable" % xm["cls"], "output is not a decodable signed transaction: %s" % e)
        if dtx["kind"] != tx["kind"] or not reftx.same_tx(dtx, tx):
            return v.bad("C11/cli-%s/fields" % xm["cls"], "decoded fields differ from the document")
        if legacy:
            if c is None:
                if vv not in (27, 28):
                    return v.bad("C11/cli-nochain-flag/v", "v = %d for a legacy transaction without chain id" % vv)
                par = vv - 27
            else:
                par = vv - 35 - 2 * c
                if par not in (0, 1):
                    return v.bad("C11/cli-legacy-chain/v", "v = %d is not 35 + 2*%d + {0,1}" % (vv, c))
        else:
            par = vv
            if par not in (0, 1):
                return v.bad("C11/cli-typed/yparity", "yParity = %d" % vv)
            if dtx["chainId"] != c:
                return v.bad("C11/cli-typed/chain-first-field", "first decoded field %s, chainId %s" % (dtx["chainId"], c))
    if not (1 <= r < secp.N and 1 <= s <= secp.HALF_N):
        return v.bad("C11/cli-%s/scalars" % xm["cls"], "r/s out of range")
    if secp.recover(h, r, s, par) != secp.pubkey(x):
        return v.bad("C11/cli-%s/sender" % xm["cls"], "the signer's key is not recovered from the reference signing hash (chainId %s bound as specified?)" % c)
    _negative_recover(v, "cli-" + xm["cls"], tx, r, s, par, x)
    if legacy and c is None:
        v.bucket("cli-nochain-flag-v%d" % (27 + par))
    elif legacy:
        v.bucket("cli-legacy-chain-parity%d" % par)
    else:
        v.bucket("cli-%s-chain" % tx["kind"])
        if flag:
            v.bucket("cli-typed-flag-irrelevant")
    if sigonly and c is not None:
        v.bucket("cli-sigonly-chain")
    if c is not None:
        _chain_buckets(v, c)
    return v


JUDGES = {"lib": judge_lib, "cli": judge_cli}


def shards(tier, seed):
    T = tier == "thorough"
    return [{"name": "lib-%d" % i, "count": 4000 if T else 350} for i in range(6)] + \
           [{"name": "cli-%d" % i, "count": 1500 if T else 80, "first": i == 0} for i in range(16)]


def _tx_with_chain(rng, c, kind=None):
    tx = txgen.rand_tx(rng, kind)
    tx["data"] = rand_bytes(rng, rng.choice([0, 4, 36]))
    if tx["kind"] != reftx.LEGACY:
        tx["accessList"] = tx["accessList"][:2]
        if c is None:
            c = 1
    tx["chainId"] = c
    return tx


def _rand_chain(rng):
    r = rng.random()
    if r < 0.45:
        return rng.choice(SPECIAL)
    if r < 0.55:
        return rng.choice(TOO_BIG)
    if r < 0.8:
        return rng.getrandbits(rng.choice([8, 16, 32, 64, 128, 200, 254]))
    return rng.randrange(0, C_MAX + 1)


CARRY = sorted({c for k in range(6, 257) for c in ((2**k - 36) // 2, (2**k - 36) // 2 + 1, (2**k - 36) // 2 - 1, 2**(k - 1) - 18, 2**(k - 1) - 17)
                if 0 <= c <= C_MAX})


def gen(shard, rng, tier):
    name = shard["name"]
    if name.startswith("lib-"):
        idx = int(name.split("-")[1])
        # every chain id at which 35 + 2c (+ parity) crosses a power of two: carry chains in multi-word arithmetic; two keys each
        # so that both parities occur
        for c in CARRY[idx::6]:
            tx = _tx_with_chain(rng, c, reftx.LEGACY)
            toks = txgen.tokens_for(rng, tx, spell=("dec", "hex"))
            for x in (rng.randrange(1, secp.N), rng.randrange(1, secp.N), rng.randrange(1, secp.N)):
                yield lib_case("lib", {"op": "tx.process", "json": txgen.render(rng, toks), "secret": "%064x" % x},
                               {"cls": "carry-chain-id", "tx": txgen.tx_to_meta(tx)}, rng.choice(["release", "dev"]))
        for _ in range(shard["count"]):
            c = _rand_chain(rng)
            tx = _tx_with_chain(rng, c, rng.choice([reftx.LEGACY, reftx.LEGACY, reftx.T2930, reftx.T1559]))
            toks = txgen.tokens_for(rng, tx, spell=("dec", "hex", "int"))
            x = boundary_scalar(rng)
            for p in ("release", "dev"):
                yield lib_case("lib", {"op": "tx.process", "json": txgen.render(rng, toks), "secret": "%064x" % x},
                               {"cls": "lib-chain", "tx": txgen.tx_to_meta(tx)}, p)
    else:
        todo = []
        if shard.get("first"):
            for c in SPECIAL + TOO_BIG:
                todo.append((reftx.LEGACY, c))
        for _ in range(shard["count"]):
            k = rng.random()
            if k < 0.3:
                todo.append((reftx.LEGACY, None))
            elif k < 0.7:
                todo.append((reftx.LEGACY, _rand_chain(rng)))
            else:
                c = _rand_chain(rng)
                todo.append((rng.choice([reftx.T2930, reftx.T1559]), c))
        for kind, c in todo:
            tx = _tx_with_chain(rng, c, kind)
            acc = cligen.rand_account(rng, simple=rng.random() < 0.7)
            key = cligen.account_key(acc)
            flag = rng.random() < 0.5
            sigonly = rng.random() < 0.3
            toks = txgen.tokens_for(rng, tx, spell=("dec", "hex", "int"))
            doc = txgen.render(rng, toks).encode()
            path, files, stdin_hex = cligen.input_channel(rng, doc, "tx.json")
            aargv, env = cligen.account_args(rng, acc)
            argv = ["sign"] + aargv + ["transaction", path]
            if flag:
                argv.append("--allow-missing-relay-protection")
            if sigonly:
                argv.append("--signature-only")
            profile = "dev" if rng.random() < 0.2 else "release"
            yield {"j": "cli", "profile": profile, "x": {"cls": "%s" % tx["kind"], "tx": txgen.tx_to_meta(tx), "flag": flag, "sigonly": sigonly,
                                                         "key": "%064x" % key},
                   "steps": [{"cli": {"argv": argv, "env": env, "files": files, "stdin_hex": stdin_hex}}]}
