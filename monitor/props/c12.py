"""C12 — new mnemonics carry exactly the OS entropy; entropy failure is an error."""
from ..gen import both, lib_case, rand_bytes
from ..ref import bip39, eth
from ..run.core import V, abnormal

ID = "C12"
LEVEL = "fault_enumeration"
NEEDS = {"lib": ["dev", "release"], "cli": ["dev", "release"], "interposer": True}
RULE = ("`hdwallet new -n L [--vanity-prefix P -j N]` process runs with the OS entropy boundary observed three ways: (1) LD_PRELOAD "
        "interposer on getentropy/getrandom that logs every call and scripts the returned bytes (zeros, ones, every single bit, "
        "counter, PRNG) - the printed phrase's entropy must be a byte-aligned slice of what was served to that run; (2) the same interposer "
        "failing the k-th request (k = 1 for plain generation; k in {1,2,3,10,40} and 'every request from k on' during vanity "
        "searches with -j 0/1/4) - the run must end non-zero with empty stdout unless a match from an earlier successful buffer "
        "was printed; (3) strace at the kernel boundary on unscripted runs - the phrase's entropy must be byte-for-byte (a slice of) what "
        "getrandom(2)/urandom returned to that process and pairwise distinct across invocations; library mnemonic.random with the "
        "in-process getentropy override; lengths 0..40. distinct = distinct (arguments, script); non-trivial = provenance compared")
LEGAL = bip39.LEGAL_COUNTS
REQUIRED = (["scripted-%s-L%d" % (m, l) for m in ("zero", "ones", "prng") for l in LEGAL] + ["scripted-single-bit", "scripted-counter",
            "plain-provenance", "fail-plain-L%d" % 12, "fail-plain-L24", "fail-vanity-error-exit", "fail-vanity-j0", "fail-vanity-j1",
            "fail-vanity-j4", "fail-from-k-terminates", "kernel-provenance", "kernel-distinct-across-invocations", "reparse-by-tool",
            "lib-scripted", "lib-fail", "lib-illegal-length-refused", "vanity-provenance"]
            + ["illegal-length-%d-refused" % l for l in range(0, 41) if l not in LEGAL])


def _phrase_entropy(stdout):
    """(words, entropy bytes) of a single printed phrase, or raises ValueError(reason)."""
    body = stdout.rstrip("\r\n")
    if "\n" in body or not body:
        raise ValueError("stdout is not exactly one line: %r" % stdout[:120])
    words = body.split()
    return words, bip39.decode_words(words)


def _good_E(o):
    return [r for r in o.get("entropy", []) if r["tag"] == "E"]


def _from_served(ent_hex, bufs):
    """Provenance: the entropy is a byte-aligned slice of what the source successfully served - of one buffer, or of the served
    buffers concatenated in request order (a tool may ask for more bytes than it needs, or fetch them in several requests; the
    property only demands that every entropy byte is a byte the source returned for that generation)."""
    def inside(hay):
        i = hay.find(ent_hex)
        while i >= 0:
            if i % 2 == 0:
                return True
            i = hay.find(ent_hex, i + 1)
        return False
    return any(inside(b) for b in bufs) or (len(bufs) > 1 and len(bufs) <= 64 and inside("".join(bufs)))


def _from_served_records(ent_hex, recs):
    """The same for interposer records, which carry the requesting thread: slices of one thread's served stream count."""
    from ..run.core import attribute_entropy
    return attribute_entropy(ent_hex, recs) is not None


def judge_scripted(case, obs):
    o = obs[0]
    xm = case["x"]
    v = V()
    if abnormal(o) or "exit" not in o:
        return v
    L = xm["L"]
    if o["exit"] != 0:
        return v.bad("C12/scripted-L%d/failed" % L, "new -n %d failed: %s" % (L, o["stderr"][-150:]))
    try:
        words, ent = _phrase_entropy(o["stdout"])
    except ValueError as e:
        return v.bad("C12/scripted-L%d/invalid-phrase" % L, "new -n %d printed an invalid phrase (%s)" % (L, e))
    if len(words) != L:
        return v.bad("C12/scripted-L%d/word-count" % L, "new -n %d printed %d words" % (L, len(words)))
    E = _good_E(o)
    if not E:
        v.nontrivial = False
        return v.bucket("no-entropy-call-seen-by-interposer")
    served = [r for r in E if r["ret"] == 0]
    if not _from_served(ent.hex(), [r["bytes"] for r in served]):
        v.bad("C12/scripted-L%d/not-the-served-bytes" % L,
              "the phrase encodes %s but the entropy source served %s" % (ent.hex(), [r["bytes"] for r in served][:3]))
    if v.viol:
        return v
    # informational (not demanded by the property): the shape of the requests
    v.bucket("plain-one-request-of-exact-length" if len(E) == 1 and E[0]["len"] == bip39.ENT_BYTES[L] else "plain-other-request-shape")
    if len(obs) > 1:
        a = obs[1]
        if abnormal(a) or "exit" not in a:
            return v
        if a["exit"] != 0:
            return v.bad("C12/scripted-L%d/tool-rejects-own-phrase" % L, "the tool cannot parse back its own phrase: %s" % a["stderr"][-150:])
        v.bucket("reparse-by-tool")
    v.bucket("plain-provenance")
    mode = xm["mode"]
    if mode in ("zero", "ones", "prng"):
        v.bucket("scripted-%s-L%d" % (mode, L))
    else:
        v.bucket("scripted-" + mode)
    return v


def judge_illegal(case, obs):
    o = obs[0]
    L = case["x"]["L"]
    v = V()
    if abnormal(o) or "exit" not in o:
        return v
    if o["exit"] == 0 or o["stdout"] != "":
        return v.bad("C12/illegal-length-%d/printed" % L, "new -n %d: exit %d, stdout %r" % (L, o["exit"], o["stdout"][:100]))
    return v.bucket("illegal-length-%d-refused" % L)


def judge_fail(case, obs):
    """Entropy failure injected. exit != 0 and empty stdout, unless a match built from an earlier successful buffer was printed."""
    o = obs[0]
    xm = case["x"]
    v = V()
    if abnormal(o) or "exit" not in o:
        return v
    E = _good_E(o)
    if not E:
        v.nontrivial = False
        return v.bucket("no-entropy-call-seen-by-interposer")
    failed = [r for r in E if r["ret"] != 0]
    if not failed:
        # the search ended before the k-th request: nothing was injected
        v.nontrivial = False
        return v.bucket("fault-not-reached")
    tagbase = "fail-plain-L%d" % xm["L"] if not xm.get("vanity") else "fail-vanity"
    if o["exit"] != 0:
        if o["stdout"] != "":
            return v.bad("C12/%s/output-on-error" % tagbase, "entropy failure: exit %d but stdout %r" % (o["exit"], o["stdout"][:80]))
        if not o["stderr"].strip():
            v.bad("C12/%s/no-message" % tagbase, "entropy failure: exit %d without a message" % o["exit"])
        v.bucket(tagbase if not xm.get("vanity") else "fail-vanity-error-exit")
    else:
        # A phrase was printed although a request failed. That is only conforming if every bit of it still comes from a
        # request that *succeeded* (a vanity match found before the fault, or a retry that was really served) and, for a
        # vanity search, the phrase really has the prefix.
        try:
            words, ent = _phrase_entropy(o["stdout"])
        except ValueError as e:
            return v.bad("C12/%s/invalid-phrase" % tagbase, "printed phrase is invalid (%s)" % e)
        from ..run.core import attribute_entropy
        att = attribute_entropy(ent.hex(), [r for r in E if r["ret"] == 0])
        if att is None or len(words) != xm["L"]:
            return v.bad("C12/%s/not-from-a-served-buffer" % tagbase,
                         "a request failed and the printed phrase encodes %s, which no successful entropy request served" % ent.hex())
        first_fail = min(r["seq"] for r in failed)
        if case["steps"][0]["cli"]["ent"].get("POSTFAIL_DELAY") and att["seq_last"] is not None and att["seq_last"] > first_fail:
            # every request after the reported failure was held back for seconds, so the tool knew about the failure long before
            # it was handed this entropy: it swallowed the error and went on
            return v.bad("C12/%s/phrase-from-entropy-served-after-the-failure" % tagbase,
                         "request %d reported failure (errno %s); the printed phrase is built from request %d, served seconds later: the failure was swallowed (-j %s)" % (
                             first_fail, case["steps"][0]["cli"]["ent"].get("ERRNO", 5), att["seq_last"], xm.get("j")))
        if not xm.get("vanity"):
            # plain generation makes one request; it reported failure, so there must be no phrase (a silent retry hides the
            # failure the property wants reported)
            return v.bad("C12/%s/phrase-printed-after-failure" % tagbase,
                         "the entropy request reported failure (errno %s) but a phrase was printed: %r" % (case["steps"][0]["cli"]["ent"].get("ERRNO", 5), o["stdout"][:60]))
        if xm.get("vanity"):
            key = eth.bip32_derive(bip39.seed(words, ""), eth.default_path(0))
            addr = eth.address_of_key(key)[2:].lower()
            if not addr.startswith(xm["prefix"][2:].lower()):
                return v.bad("C12/fail-vanity/printed-non-matching-candidate",
                             "after an entropy failure a phrase was printed whose address 0x%s lacks the prefix %s" % (addr, xm["prefix"]))
            v.bucket("fail-vanity-match-from-earlier-buffer")
        else:
            v.bucket("fail-plain-retried-and-served")
    if xm.get("vanity"):
        v.bucket("fail-vanity-j%d" % xm["j"])
        if xm.get("from"):
            v.bucket("fail-from-k-terminates")
    return v


def judge_kernel(case, obs):
    """Unscripted runs under strace: provenance at the kernel boundary, distinctness across invocations."""
    v = V()
    if any(abnormal(o) or "exit" not in o for o in obs):
        return v
    L = case["x"]["L"]
    ents = []
    for o in obs:
        if o["exit"] != 0:
            return v.bad("C12/kernel-L%d/failed" % L, "new -n %d failed: %s" % (L, o["stderr"][-100:]))
        try:
            words, ent = _phrase_entropy(o["stdout"])
        except ValueError as e:
            return v.bad("C12/kernel-L%d/invalid-phrase" % L, "invalid phrase (%s)" % e)
        if len(words) != L:
            return v.bad("C12/kernel-L%d/word-count" % L, "%d words for -n %d" % (len(words), L))
        sc = [s for s in o.get("syscalls", []) if s["ret"] == s["len"] and not s["truncated"]]
        if not o.get("syscalls"):
            v.nontrivial = False
            return v.bucket("no-random-syscall-seen")
        if not _from_served(ent.hex(), [s["bytes"] for s in sc]):
            return v.bad("C12/kernel-L%d/not-os-entropy" % L,
                         "the phrase encodes %s, which is not (a slice of) the result of the getrandom/urandom requests, %d bytes needed (%s)" % (
                             ent.hex(), len(ent), [(s["len"], s["bytes"][:16]) for s in sc][:4]))
        ents.append(ent)
    if len(set(ents)) != len(ents):
        return v.bad("C12/kernel-L%d/repeated-entropy" % L, "independent invocations produced the same entropy")
    if ents and all(e == bytes(len(e)) for e in ents):
        return v.bad("C12/kernel-L%d/constant-entropy" % L, "all-zero entropy")
    v.bucket("kernel-provenance")
    if len(ents) > 1:
        v.bucket("kernel-distinct-across-invocations")
    return v


def judge_vanity(case, obs):
    """Scripted PRNG entropy during a vanity search: the printed phrase is one of the served buffers, all requests have the right length."""
    o = obs[0]
    xm = case["x"]
    v = V()
    if abnormal(o) or "exit" not in o:
        return v
    if o["exit"] != 0:
        return v.bad("C12/vanity/failed", "vanity generation failed: %s" % o["stderr"][-120:])
    try:
        words, ent = _phrase_entropy(o["stdout"])
    except ValueError as e:
        return v.bad("C12/vanity/invalid-phrase", "invalid phrase (%s)" % e)
    E = _good_E(o)
    if not E:
        v.nontrivial = False
        return v.bucket("no-entropy-call-seen-by-interposer")
    served = [r["bytes"] for r in E if r["ret"] == 0]
    if len(words) != xm["L"] or not _from_served_records(ent.hex(), [r for r in E if r["ret"] == 0]):
        return v.bad("C12/vanity/not-a-served-buffer", "printed phrase (%d words) encodes %s, not one of the %d served buffers" % (len(words), ent.hex(), len(served)))
    if len(set(served)) != len(served):
        v.bucket("script-repeated-a-buffer")
    return v.bucket("vanity-provenance")


def judge_lib(case, obs):
    o = obs[0]
    req = case["steps"][0]["lib"]
    v = V()
    L = req["length"]
    calls = o.get("calls", [])
    if "panic" in o or "crash" in o or "hang" in o:
        return v
    if L not in LEGAL:
        if "ok" in o:
            return v.bad("C12/lib-illegal-length-%d/generated" % L, "Mnemonic::random(%d) returned %r" % (L, o["ok"]["phrase"][:60]))
        return v.bucket("lib-illegal-length-refused")
    nb = bip39.ENT_BYTES[L]
    if req.get("fail_at") or req.get("fail_from"):
        if not any(c["ret"] != 0 for c in calls):
            # no request was made during this call (a library that fetches ahead served it from bytes obtained earlier), so no
            # failure was reported to it: nothing to demand
            v.nontrivial = False
            return v.bucket("lib-fault-not-reached")
        if "ok" in o:
            return v.bad("C12/lib-fail-L%d/generated" % L, "every usable entropy request failed (errno %s) but a phrase was returned: %r" % (
                req.get("errno", 5), o["ok"]["phrase"][:40]))
        return v.bucket("lib-fail")
    if "ok" not in o:
        return v.bad("C12/lib-L%d/failed" % L, "Mnemonic::random(%d) failed: %s" % (L, o.get("err")))
    served = [c["bytes"] for c in calls if c["ret"] == 0]
    if not calls and o.get("recent"):
        served = [o["recent"]]  # fetched ahead during an earlier request of this process
        v.bucket("lib-served-from-earlier-request")
    if req.get("passthrough"):
        v.nontrivial = False
        return v.bucket("lib-passthrough-not-judged")
    try:
        got_words = o["ok"]["phrase"].split(" ")
        ent = bip39.decode_words(got_words)
    except ValueError as e:
        return v.bad("C12/lib-L%d/invalid-phrase" % L, "Mnemonic::random(%d) returned an invalid phrase (%s)" % (L, e))
    if len(got_words) != L or o["ok"]["length"] != L or len(ent) != nb or not _from_served(ent.hex(), served):
        return v.bad("C12/lib-L%d/not-the-served-bytes" % L, "phrase %r is not the encoding of served bytes %s" % (o["ok"]["phrase"][:50], served[:3]))
    if o["ok"]["reparse"].get("ok") != o["ok"]["phrase"]:
        return v.bad("C12/lib-L%d/reparse" % L, "generated phrase does not parse back")
    v.bucket("lib-one-request-of-exact-length" if len(calls) == 1 and calls[0]["len"] == nb else "lib-other-request-shape")
    return v.bucket("lib-scripted")


JUDGES = {"scripted": judge_scripted, "illegal": judge_illegal, "fail": judge_fail, "kernel": judge_kernel, "vanity": judge_vanity, "lib": judge_lib}


def shards(tier, seed):
    T = tier == "thorough"
    return ([{"name": "scripted-%d" % l, "L": l, "reps": 200 if T else 8, "bits": 128 if T else 16} for l in LEGAL]
            + [{"name": "illegal", "exhaustive": "every requested length 0..40"}]
            + [{"name": "fail-plain"}, {"name": "kernel", "runs": 100 if T else 16}]
            + [{"name": "fail-vanity-%d" % i, "reps": 30 if T else 4, "idx": i} for i in range(6)]
            + [{"name": "vanity-prov-%d" % i, "count": 60 if T else 6} for i in range(4)]
            + [{"name": "lib", "count": 60000 if T else 2000}])


def _new(L, extra=None):
    a = ["new"]
    a.append(rng_style(L))
    return a + (extra or [])


def rng_style(L):
    return "--length=%d" % L if L % 2 else "-n%d" % L


def gen(shard, rng, tier):
    name = shard["name"]
    if name.startswith("scripted-"):
        L = shard["L"]
        nb = bip39.ENT_BYTES[L]
        scripts = [("zero", {"MODE": "zero"}), ("ones", {"MODE": "ones"})]
        for _ in range(shard["reps"]):
            scripts.append(("prng", {"MODE": "prng", "SEED": rng.randrange(2**62)}))
            scripts.append(("counter", {"MODE": "counter", "SEED": rng.randrange(256)}))
        bits = sorted(set([0, 7, 8, nb * 8 - 1, nb * 8 - 8] + [rng.randrange(nb * 8) for _ in range(shard["bits"])]))
        for b in bits:
            scripts.append(("single-bit", {"MODE": "hex", "HEX": (1 << b).to_bytes(nb, "big").hex()}))
        for mode, ent in scripts:
            argv = _new(L) if L != 12 or rng.random() < 0.5 else ["new"]
            if rng.random() < 0.3:
                argv = argv + rng.choice([["--language", "english"], ["--language=English"], ["-l", "ENGLISH"], ["--language", "eNgLiSh"]])
            steps = [{"cli": {"argv": argv, "ent": ent}}]
            if rng.random() < 0.4:
                steps.append({"cli": {"argv": ["address"], "env": {"MNEMONIC": "@OUT:0@"}}})
            yield {"j": "scripted", "profile": "dev" if rng.random() < 0.3 else "release", "x": {"cls": "scripted", "L": L, "mode": mode}, "steps": steps}
    elif name == "illegal":
        # ... and lengths that are legal modulo 2^8 / 2^16 / 2^32 (a length narrowed before it is checked)
        for L in list(range(0, 41)) + [256 + 12, 256 + 24, 512 + 15, 65536 + 12, 65536 + 24, 2**32 + 12, 2**32 + 24]:
            if L in LEGAL:
                continue
            for p in ("release", "dev"):
                yield {"j": "illegal", "profile": p, "x": {"cls": "illegal-length-%d" % L, "L": L},
                       "steps": [{"cli": {"argv": ["new", "-n", str(L)], "ent": {"MODE": "prng", "SEED": L}}}]}
            # also through a vanity search
            yield {"j": "illegal", "profile": "release", "x": {"cls": "illegal-length-%d" % L, "L": L},
                   "steps": [{"cli": {"argv": ["new", "-n", str(L), "--vanity-prefix", "0x0", "-j", "1"], "ent": {"MODE": "prng", "SEED": L, "CAP": 2000}}}]}
    elif name == "fail-plain":
        for L in LEGAL:
            for p in ("release", "dev"):
                ents = [{"FAIL_AT": 1}, {"FAIL_FROM": 1}, {"MODE": "zero", "FAIL_AT": 1}]
                # the same faults reported with other error numbers (EINTR, EAGAIN, EFAULT, ENOSYS, EPERM): a failure is a failure
                for en in (4, 11, 14, 38, 1):
                    ents.append({"FAIL_FROM": 1, "ERRNO": en})
                    ents.append({"FAIL_AT": 1, "ERRNO": en, "MODE": "prng", "SEED": L})
                for ent in ents:
                    ent = dict(ent, CAP=500)  # a retry loop on a persistent failure is unbounded computation, decided on requests
                    yield {"j": "fail", "profile": p, "x": {"cls": "fail-plain", "L": L}, "steps": [{"cli": {"argv": ["new", "-n", str(L)], "ent": ent}}]}
    elif name == "kernel":
        for L in LEGAL:
            for p in ("release", "dev"):
                steps = [{"cli": {"argv": ["new", "-n", str(L)], "strace": True}} for _ in range(shard["runs"] if p == "release" else 3)]
                yield {"j": "kernel", "profile": p, "x": {"cls": "kernel", "L": L}, "steps": steps}
    elif name.startswith("fail-vanity-"):
        ks = [1, 2, 3, 10, 40]
        for _ in range(shard["reps"]):
            for k in ks:
                for j in (0, 1, 4):
                    for frm in (False, True):
                        if (k + j + shard["idx"]) % 6 != 0 and not (shard["idx"] == 0 and k == 1):
                            continue
                        L = rng.choice(LEGAL)
                        prefix = "0x" + "".join(rng.choice("0123456789abcdef") for _ in range(2))
                        from ..run.core import vanity_cap
                        ent = {"MODE": "prng", "SEED": rng.randrange(2**62), "CAP": vanity_cap(2, j)}
                        ent["FAIL_FROM" if frm else "FAIL_AT"] = k
                        ent["POSTFAIL_DELAY"] = 5000000
                        if rng.random() < 0.4:
                            ent["ERRNO"] = rng.choice([4, 11, 14, 38])
                        yield {"j": "fail", "profile": "release", "x": {"cls": "fail-vanity", "L": L, "vanity": True, "j": j, "k": k, "from": frm, "prefix": prefix},
                               "steps": [{"cli": {"argv": ["new", "-n", str(L), "--vanity-prefix", prefix, "-j", str(j)], "ent": ent, "timeout": 300}}]}
            # one transient failure in the middle of a search with several workers: the failing worker's error must end the run
            # (whichever worker is luckier afterwards), unless a match from entropy served before the fault wins the race
            for j, k in ((2, 2), (2, 5), (4, 3), (4, 9), (16, 4), (16, 20), (64, 30)):
                if (j + k + shard["idx"]) % 3:
                    continue
                L = rng.choice(LEGAL)
                prefix = "0x" + "".join(rng.choice("0123456789abcdefABCDEF") for _ in range(3))
                from ..run.core import vanity_cap
                ent = {"MODE": "prng", "SEED": rng.randrange(2**62), "CAP": vanity_cap(3, j), "FAIL_AT": k, "POSTFAIL_DELAY": 5000000,
                       "ERRNO": rng.choice([5, 4, 11])}
                yield {"j": "fail", "profile": "release", "x": {"cls": "fail-vanity", "L": L, "vanity": True, "j": j, "k": k, "from": False, "prefix": prefix, "transient": True},
                       "steps": [{"cli": {"argv": ["new", "-n", str(L), "--vanity-prefix", prefix, "-j", str(j)], "ent": ent, "timeout": 600}}]}
    elif name.startswith("vanity-prov-"):
        for _ in range(shard["count"]):
            L = rng.choice(LEGAL)
            prefix = "0x" + rng.choice("0123456789abcdefABCDEF")
            j = rng.choice([0, 1, 2, 8])
            from ..run.core import vanity_cap
            ent = {"MODE": rng.choice(["prng", "pass"]), "SEED": rng.randrange(2**62), "CAP": vanity_cap(1, j)}
            yield {"j": "vanity", "profile": "release", "x": {"cls": "vanity", "L": L},
                   "steps": [{"cli": {"argv": ["new", "-n", str(L), "--vanity-prefix", prefix, "-j", str(j)], "ent": ent, "timeout": 300}}]}
    else:
        for _ in range(shard["count"]):
            r = rng.random()
            if r < 0.15:
                L = rng.randrange(0, 41) if rng.random() < 0.8 else rng.choice([256 + 12, 256 + 24, 512 + 18, 65536 + 12, 65536 + 24, 2**32 + 12, 2**32 + 24])
                req = {"op": "mnemonic.random", "length": L}
            elif r < 0.3:
                req = {"op": "mnemonic.random", "length": rng.choice(LEGAL), rng.choice(["fail_at", "fail_from"]): 1, "errno": rng.choice([5, 5, 4, 11, 14, 38, 1])}
            else:
                L = rng.choice(LEGAL)
                nb = bip39.ENT_BYTES[L]
                k = rng.randrange(5)
                e = [bytes(nb), b"\xff" * nb, (1 << rng.randrange(nb * 8)).to_bytes(nb, "big"), rand_bytes(rng, nb), bytes(range(nb))][k]
                req = {"op": "mnemonic.random", "length": L, "entropy": e.hex()}
            yield from both(lib_case("lib", req, {"cls": "lib-random"}))
        # the same bytes served twice in a row (and three times): every successful request is used, whatever it returned
        for L in LEGAL:
            nb = bip39.ENT_BYTES[L]
            for e in (bytes(nb), b"\xff" * nb, rand_bytes(rng, nb)):
                for _ in range(3):
                    yield from both(lib_case("lib", {"op": "mnemonic.random", "length": L, "entropy": e.hex()}, {"cls": "lib-random-repeated-block"}))
        for L in range(0, 41):
            yield from both(lib_case("lib", {"op": "mnemonic.random", "length": L}, {"cls": "lib-random"}))


def extra_phases(ctx, tier, seed):
    """Thorough tier: the FFI write is also checked by ASan (in-process getentropy override copying exactly `len` bytes into the
    buffer the library passed) and by Miri with Stacked Borrows on (Miri's own getentropy shim)."""
    if tier != "thorough":
        return {}, []
    from ..run import core, sanitize
    rng = core.rng_for(seed, ID, "sanitizers")
    reqs = []
    for L in range(0, 41):
        for e in (None, "00" * 32, "ff" * 32, rand_bytes(rng, 32).hex()):
            r = {"op": "mnemonic.random", "length": L}
            if e:
                r["entropy"] = e
            reqs.append(r)
        reqs.append({"op": "mnemonic.random", "length": L, "fail_at": 1})
        reqs.append({"op": "mnemonic.random", "length": L, "passthrough": True})
    s1, v1 = sanitize.asan_lib(reqs, ctx.run_dir, jobs=4)
    batches = [("entropy-sb-%d" % i, "", [{"op": "mnemonic.random", "length": L} for L in range(i, 41, 4)]) for i in range(4)]
    s2, v2, obs = sanitize.miri(batches, ctx.run_dir)
    viol = v1 + v2
    for name, pairs in obs.items():
        for req, o in pairs:
            L = req["length"]
            if "panic" in o:
                viol.append({"sig": "C12/miri-L%d/panic" % L, "msg": "panic under Miri: %s" % str(o["panic"])[:200], "case": None, "obs": [o]})
            elif (L in LEGAL) != ("ok" in o):
                viol.append({"sig": "C12/miri-L%d/%s" % (L, "generated" if "ok" in o else "refused"), "msg": "Mnemonic::random(%d) under Miri: %s" % (L, str(o)[:150]),
                             "case": None, "obs": [o]})
            elif "ok" in o and bip39.classify(o["ok"]["phrase"].split(" ")) != "ok":
                viol.append({"sig": "C12/miri-L%d/invalid-phrase" % L, "msg": "invalid phrase generated under Miri", "case": None, "obs": [o]})
    return {"sanitizers": [s1, s2], "evaluations": s1["executions"] + s2["executions"],
            "buckets": {"sanitizer-executions:AddressSanitizer": s1["executions"], "sanitizer-executions:Miri": s2["executions"]}}, viol
