"""C13 — transaction JSON numbers mean exactly the integer written or are rejected."""
import json

from .. import tdcli, txgen
from ..gen import both, boundary_u256, lib_case, rand_bytes, VOCAB_UNITS
from ..ref import jsonnum
from ..ref import tx as reftx
from ..run.core import V

ID = "C13"
LEVEL = "exploration"
NEEDS = {"lib": ["dev", "release"], "cli": ["dev", "release"]}
RULE = ("tx.process(json) events where exactly one field carries a hostile spelling; the spelling is classified from its text "
        "alone (exact rational arithmetic) as must-accept / must-reject / unspecified; accepted values are compared through the "
        "unsigned payload with the reference encoding of the exact integer; all spellings of one integer must give identical "
        "payloads; byte, address and storage-key fields with malformed hex; a fee-market field that is present and not a number next to the fields of an older kind; a sample of the same documents through `hash transaction` (printed hash = Keccak-256 of the reference payload) and `sign transaction` [--signature-only] (accept / reject); distinct = distinct documents; non-trivial = "
        "classification was must-accept or must-reject (unspecified spellings are only checked for exactness when accepted)")
REQUIRED = ["accept-json-int", "accept-json-float", "accept-dec-string", "accept-hex-string", "spellings-identical", "reject-negative-number",
            "reject-negative-string", "reject-fraction", "reject-above-range-number", "reject-range-string", "reject-empty-string",
            "reject-not-a-number", "reject-wrong-json-kind", "reject-data-no-prefix", "reject-data-odd", "reject-data-nonhex",
            "reject-address-length", "reject-storage-key-length", "either-float>=2^53", "either-int>=2^64", "accept-near-2^53-float",
            "accept-2^256-1", "accept-address-20", "accept-storage-key-32", "accept-data-uppercase", "reject-bad-fee-field-next-to-older-kind-fields", "cli-tx-commands-judged"]
U256_MAX = 2**256 - 1
C_MAX = (2**256 - 37) // 2

NEG_NUMBERS = ["-1", "-5", "-1.0", "-1e3", "-0.5", "-9223372036854775808", "-9223372036854775809", "-18446744073709551616", "-1e30",
               "-255", "-1E0", "-100e-2"]
FRACTIONS = ["1.5", "0.1", "1e-1", "3.0000001", "2.5e0", "15e-1", "0.5", "1234.5678", "1e-7", "9007199254740990.5", "4503599627370495.5",
             "0.999999", "1.0000001e3", "255.5", "1e-300"]
BELOW_HALF_ULP = ["1.00000000000000001", "4503599627370496.25", "2.00000000000000000000001", "9007199254740990.9999999",
                  "1e-400", "0.00000000000000000000000000000000000000000000000000001e-300", "255.00000000000000001",
                  "21000.0000000000000001"]
BIG_FLOATS = ["9007199254740992.0", "9007199254740993.0", "1e16", "1e20", "1.8446744073709552e19", "1e77", "1.157920892373162e77",
              "1e78", "1e400", "2e77", "123456789012345678901234567890.0", "1.0e53"]
BIG_INTS = ["18446744073709551616", "18446744073709551617", "340282366920938463463374607431768211456", str(U256_MAX), str(U256_MAX + 1),
            str(2**255), "100000000000000000000", "9" * 80]
ZERO_FORMS = ["0e999", "0.0e0", "0E-999", "0.000", "0e0", "0.0", "0E+5", "00e0"[1:], "-0e5", "-0.0"]
ESCAPED_STRINGS = ['"\\u0030x10"', '"0\\u007810"', '"\\u0031\\u0032"', '"0x\\u0066F"', '"1\\u0030"']
NEAR_53 = ["9007199254740991.0", "9007199254740990.0", "9007199254740989.0", "9.007199254740991e15", "900719925474099.1e1",
           "90071992547409910e-1", "4503599627370497.0", "4503599627370495.0", "8765432109876543.0", "9007199254740991e0",
           "7205759403792793.0", "6755399441055743.0", "1234567890123457.0", "0.9007199254740991e16", "9007199254740.991e3"]
STRINGS_BAD = ["", "0x", "12z", "0xg1", "hello", "1.5", "-1", "-0x1", "-255", "0x-1", "0x+a", "0x+00ff", "0x+", "0x-", "-0x+1", str(U256_MAX + 1), "0x1" + "0" * 64, "1,000", "ten",
               "0x12 34", "NaN", "Infinity", "-0x", "0xx1", "12.0", "1.50"]
STRINGS_EITHER = ["+1", "007", "0b11", "0o7", "0X1f", "1_000", " 1", "1 ", "0x00ff", "1e3", "abc", "-0", "+0x1", "0x0000"]
KINDS_BAD = ["true", "false", "[]", "{}", "[1]", '{"a":1}', "[[]]"]


def _payload_for(tx):
    return reftx.unsigned_payload(tx).hex()


def judge_num(case, obs):
    """One numeric field with a hostile spelling."""
    o = obs[0]
    xm = case["x"]
    v = V()
    if "ok" not in o and "err" not in o:
        return v
    tok = xm["token"]
    field = xm["field"]
    tx = txgen.tx_from_meta(xm["tx"])
    hi = C_MAX if (field == "chainId" and tx["kind"] == reftx.LEGACY) else U256_MAX
    if tok.startswith('"'):
        s = json.loads(tok)
        cls, val = jsonnum.classify_numeric_string(s, 0, hi)
        shape = "string"
    elif tok[0] in "-0123456789":
        try:
            cls, val = jsonnum.classify_number_token(tok, 0, hi)
        except ValueError:
            cls, val = "reject", "not-json"
        shape = "json-number"
    elif tok == "null" and field == "chainId" and tx["kind"] == reftx.LEGACY:
        cls, val, shape = "accept-none", None, "null"
    else:
        cls, val, shape = "reject", "wrong-json-kind", "json-kind"
    accepted = "ok" in o
    if cls == "accept" or cls == "accept-none":
        if not accepted:
            return v.bad("C13/%s/%s/rejected" % (shape, "must-accept"), "field %s = %s (integer %s) rejected: %s" % (field, tok[:60], val, o.get("err")))
        tx[field] = val
        if o["ok"]["unsigned"] != _payload_for(tx):
            return v.bad("C13/%s/must-accept/wrong-value" % shape, "field %s = %s is not encoded as the integer %s" % (field, tok[:60], val))
        if shape == "json-number":
            floaty = any(c in tok for c in ".eE")
            v.bucket("accept-json-float" if floaty else "accept-json-int")
            if floaty and val is not None and val > 2**52:
                v.bucket("accept-near-2^53-float")
        elif shape == "string":
            v.bucket("accept-hex-string" if json.loads(tok).startswith("0x") else "accept-dec-string")
        if val == U256_MAX:
            v.bucket("accept-2^256-1")
    elif cls == "reject":
        if accepted:
            sub = val
            if val == "fraction-below-half-ulp":
                tx2 = dict(tx)
                tx2[field] = int(float(tok))
                sub += "/accepted-as-rounded-double" if o["ok"]["unsigned"] == _payload_for(tx2) else "/accepted-other-value"
            else:
                sub += "/accepted"
            return v.bad("C13/%s/%s" % (shape, sub), "field %s = %s must be refused (%s) but the document was accepted" % (field, tok[:70], val))
        name = {"negative": "reject-negative-number" if shape == "json-number" else "reject-negative-string", "fraction": "reject-fraction",
                "fraction-below-half-ulp": "reject-fraction", "above-range": "reject-above-range-number", "range": "reject-range-string",
                "empty": "reject-empty-string", "not-a-number": "reject-not-a-number", "fraction-string": "reject-fraction",
                "wrong-json-kind": "reject-wrong-json-kind", "not-json": "reject-wrong-json-kind"}.get(val, "reject-other")
        v.bucket(name)
    else:
        # unspecified spelling
        if accepted and val is not None:
            tx[field] = val
            if o["ok"]["unsigned"] != _payload_for(tx):
                return v.bad("C13/%s/unspecified/wrong-value" % shape, "field %s = %s accepted but not as the integer %s" % (field, tok[:60], val))
        if accepted and val is None and cls == "either-reject-preferred":
            return v.bad("C13/%s/unspecified-out-of-range/accepted" % shape, "out-of-range value %s accepted for %s" % (tok[:60], field))
        if shape == "json-number":
            big = any(c in tok for c in ".eE")
            v.bucket("either-float>=2^53" if big else "either-int>=2^64")
        v.bucket("either-%s" % ("accepted" if accepted else "rejected"))
        v.nontrivial = accepted and val is not None
    return v


def judge_same(case, obs):
    """All spellings of one integer give identical payloads equal to the reference."""
    v = V()
    if any("ok" not in o and "err" not in o for o in obs):
        return v
    xm = case["x"]
    tx = txgen.tx_from_meta(xm["tx"])
    want = _payload_for(tx)
    for o, step in zip(obs, case["steps"]):
        if "ok" not in o:
            return v.bad("C13/spellings/rejected", "a must-accept spelling was rejected: %s (%s)" % (o.get("err"), step["lib"]["json"][:200]))
        if o["ok"]["unsigned"] != want:
            return v.bad("C13/spellings/differ", "spellings of the same integers give different encodings (%s)" % step["lib"]["json"][:200])
    return v.bucket("spellings-identical")


def judge_bytes(case, obs):
    o = obs[0]
    xm = case["x"]
    v = V()
    if "ok" not in o and "err" not in o:
        return v
    accepted = "ok" in o
    exp = xm["expect"]
    if exp == "reject":
        if accepted:
            return v.bad("C13/%s/accepted" % xm["cls"], "malformed %s accepted: %s" % (xm["cls"], xm["shown"][:80]))
        return v.bucket(xm["bucket"])
    if exp == "accept":
        if not accepted:
            return v.bad("C13/%s/rejected" % xm["cls"], "well-formed %s rejected: %s" % (xm["cls"], o.get("err")))
        if o["ok"]["unsigned"] != _payload_for(txgen.tx_from_meta(xm["tx"])):
            return v.bad("C13/%s/wrong-value" % xm["cls"], "%s not encoded as written" % xm["cls"])
        return v.bucket(xm["bucket"])
    # either
    if accepted and o["ok"]["unsigned"] != _payload_for(txgen.tx_from_meta(xm["tx"])):
        return v.bad("C13/%s/unspecified/wrong-value" % xm["cls"], "%s accepted with a different value" % xm["cls"])
    v.nontrivial = False
    return v.bucket("either-bytes-%s" % ("accepted" if accepted else "rejected"))


JUDGES = {"num": judge_num, "same": judge_same, "bytes": judge_bytes}
JUDGES["cli-tx"] = tdcli.make_tx_judge(ID, JUDGES)


def shards(tier, seed):
    T = tier == "thorough"
    return [{"name": "num-%d" % i, "count": 30000 if T else 500, "idx": i} for i in range(12)] + \
           [{"name": "bytes-%d" % i, "count": 30000 if T else 500} for i in range(4)] + \
           [{"name": "cli-surface-%d" % i, "part": i} for i in range(8)]


def _small_tx(rng, kind=None):
    tx = txgen.rand_tx(rng, kind)
    tx["data"] = rand_bytes(rng, rng.choice([0, 1, 4, 36]))
    if tx["kind"] != reftx.LEGACY:
        tx["accessList"] = tx["accessList"][:2]
    return tx


def _doc(rng, tx, override=None):
    toks = txgen.tokens_for(rng, tx, spell=("int", "dec", "hex"))
    if override:
        toks.update(override)
    return txgen.render(rng, toks)


def _rand_token(rng):
    """A hostile spelling; its meaning is decided by the oracle from the text."""
    k = rng.randrange(16)
    if k == 14:
        # a number followed by a unit or a keyword: not a number
        v = rng.choice([1, 30, 21000, rng.randrange(10**6)])
        body = rng.choice(["%d", "0x%x", "%d.0", "%d.5"]) % v
        return json.dumps(body + rng.choice(["", " ", "_"]) + rng.choice(VOCAB_UNITS))
    if k == 15:
        # exactly 64 hex characters with one stray character at a word offset (fast paths split there)
        h = list("%064x" % rng.getrandbits(256))
        h[rng.choice([0, 1, 15, 16, 31, 32, 33, 47, 48, 63])] = rng.choice("+- _xXgG.")
        return json.dumps("0x" + "".join(h))
    if k == 0:
        return rng.choice(NEG_NUMBERS)
    if k == 1:
        return rng.choice(FRACTIONS)
    if k == 2:
        return rng.choice(BELOW_HALF_ULP)
    if k == 3:
        return rng.choice(BIG_FLOATS)
    if k == 4:
        return rng.choice(BIG_INTS)
    if k == 5:
        return rng.choice(NEAR_53)
    if k == 6:
        return json.dumps(rng.choice(STRINGS_BAD))
    if k == 7:
        return json.dumps(rng.choice(STRINGS_EITHER))
    if k == 8:
        return rng.choice(KINDS_BAD)
    if k == 9:
        # random 15-17 significant digit floats around 2^52..2^53 (exactly integral)
        val = rng.randrange(2**52, 2**53)
        f = rng.randrange(4)
        return ["%d.0" % val, "%d.%de%d" % (val // 10**3, val % 10**3 + 10**3, 3), "%de0" % val, "0.%de%d" % (val, len(str(val)))][f] \
            if f != 1 else "%d.%03de3" % (val // 1000, val % 1000)
    if k == 10:
        val = rng.choice([U256_MAX, U256_MAX - 1, 2**255, 2**64, 2**64 - 1, 2**53, 2**53 - 1, 0, 1])
        return rng.choice(['"%d"' % val, '"0x%x"' % val, '"0x%X"' % val])
    if k == 11:
        # random mantissa/exponent forms; integral or not is for the oracle to say
        m = rng.randrange(1, 10**rng.randint(1, 17))
        e = rng.randint(-5, 8)
        frac = rng.randrange(0, 1000)
        return "%d.%03de%d" % (m, frac, e)
    if k == 12:
        val = boundary_u256(rng)
        return txgen.spell_number(rng, val)
    return str(-rng.randrange(1, 2**70))


def gen(shard, rng, tier):
    name = shard["name"]
    if name.startswith("cli-surface"):
        # a sample of the same documents through `hash transaction`, `sign transaction` and `sign transaction --signature-only`
        def lib_cases():
            for sub in ({"name": "num-0", "idx": shard["part"] % 12, "count": 1500 if tier == "thorough" else 150}, {"name": "bytes-0", "count": 1000 if tier == "thorough" else 100}):
                yield from gen(sub, rng, tier)
        yield from tdcli.tx_cli_cases(lib_cases(), every=2, limit=4000 if tier == "thorough" else 480, part=shard["part"], parts=8)
        return
    if name.startswith("num-"):
        # the fixed lists are swept completely (each entry x a random field), then random tokens
        fixed = NEG_NUMBERS + FRACTIONS + BELOW_HALF_ULP + BIG_FLOATS + BIG_INTS + NEAR_53 + KINDS_BAD + ZERO_FORMS + ESCAPED_STRINGS + \
            [json.dumps(s) for s in STRINGS_BAD + STRINGS_EITHER]
        todo = [t for i, t in enumerate(fixed) if i % 12 == shard["idx"]] * 3 + [None] * shard["count"]
        for t in todo:
            tok = t if t is not None else _rand_token(rng)
            tx = _small_tx(rng)
            field = rng.choice([f for f in txgen.NUM_FIELDS[tx["kind"]]])
            if field == "chainId" and tx.get("chainId") is None:
                tx["chainId"] = 1
            yield from both(lib_case("num", {"op": "tx.process", "json": _doc(rng, tx, {field: tok})},
                                     {"cls": "num", "token": tok, "field": field, "tx": txgen.tx_to_meta(tx)}))
            if rng.random() < 0.25:
                # metamorphic: same integers, four spellings
                tx = _small_tx(rng)
                for f in txgen.NUM_FIELDS[tx["kind"]]:
                    if tx.get(f) is not None and rng.random() < 0.7:
                        tx[f] = rng.randrange(0, 2**53)
                steps = []
                for sp in (("int",), ("float",), ("dec",), ("hex",), ("int", "float", "dec", "hex")):
                    if any(tx.get(f) is not None and tx[f] >= 2**53 for f in txgen.NUM_FIELDS[tx["kind"]]) and sp in (("int",), ("float",)):
                        sp = ("dec", "hex")
                    toks = txgen.tokens_for(rng, tx, spell=sp)
                    steps.append({"lib": {"op": "tx.process", "json": txgen.render(rng, toks)}})
                for p in ("release", "dev"):
                    yield {"j": "same", "profile": p, "steps": steps, "x": {"cls": "spellings", "tx": txgen.tx_to_meta(tx)}}
            if rng.random() < 0.05:
                # a numeric field of another kind present with the value null is not "absent": null is not a number
                tx = _small_tx(rng, reftx.LEGACY)
                f = rng.choice(["maxFeePerGas", "maxPriorityFeePerGas"])
                yield from both(lib_case("bytes", {"op": "tx.process", "json": _doc(rng, tx, {f: "null"})},
                                         {"cls": "null-fee-field", "expect": "reject", "bucket": "reject-wrong-json-kind", "shown": f + ": null", "tx": None}))
            if rng.random() < 0.08:
                # the same for every other non-number, and for documents that would be complete transactions of an older kind
                # without the offending field (gasPrice and / or accessList present): a fee field that is there and is not a
                # number is never skipped in favour of "some other reading of the document"
                tx = _small_tx(rng, rng.choice([reftx.LEGACY, reftx.T2930, reftx.T2930]))
                f, g = rng.sample(["maxFeePerGas", "maxPriorityFeePerGas"], 2)
                bad = rng.choice(["null", "-1", "1.5", '""', '"-1"', '"abc"', "true", "[]", "{}", str(2**256), '"%d"' % 2**256, '"0x1%064x"' % 0, "-0.5", '"1.5"'])
                ov = {f: bad}
                if rng.random() < 0.7:
                    ov[g] = txgen.spell_number(rng, rng.randrange(2**40))
                yield from both(lib_case("bytes", {"op": "tx.process", "json": _doc(rng, tx, ov)},
                                         {"cls": "bad-fee-field-next-to-older-kind-fields", "expect": "reject", "bucket": "reject-bad-fee-field-next-to-older-kind-fields",
                                          "shown": "%s: %s with %s" % (f, bad, "accessList" if tx["kind"] == reftx.T2930 else "legacy fields"), "tx": None}))
            if rng.random() < 0.05:
                # legacy chainId null = no chain id
                tx = _small_tx(rng, reftx.LEGACY)
                tx["chainId"] = None
                yield from both(lib_case("num", {"op": "tx.process", "json": _doc(rng, tx, {"chainId": "null"})},
                                         {"cls": "num", "token": "null", "field": "chainId", "tx": txgen.tx_to_meta(tx)}))
    else:
        for _ in range(shard["count"]):
            tx = _small_tx(rng, rng.choice([reftx.T2930, reftx.T1559, reftx.LEGACY]))
            k = rng.randrange(16)
            x = {"tx": None}
            ov = {}
            if k == 0:
                h = rand_bytes(rng, rng.randint(1, 40)).hex()
                ov, x = {"data": '"%s"' % h}, {"cls": "data-no-prefix", "expect": "reject", "bucket": "reject-data-no-prefix", "shown": h}
            elif k == 1:
                h = "0x" + rand_bytes(rng, rng.randint(0, 40)).hex() + rng.choice("0123456789abcdef")
                ov, x = {"data": '"%s"' % h}, {"cls": "data-odd", "expect": "reject", "bucket": "reject-data-odd", "shown": h}
            elif k == 2:
                h = "0x" + rand_bytes(rng, rng.randint(0, 10)).hex() + rng.choice(["zz", "g0", "0x", "  ", "-1", "0 "]) + rand_bytes(rng, rng.randint(0, 3)).hex()
                if rng.random() < 0.35:
                    h = rng.choice(["0x0x", "0x0x" + rand_bytes(rng, rng.randint(1, 8)).hex(), "0x0x0x12", "0x 12", "0x1 2", "0x+12", "x12", "0x0X12", "0xx12"])
                ov, x = {"data": json.dumps(h)}, {"cls": "data-nonhex", "expect": "reject", "bucket": "reject-data-nonhex", "shown": h}
            elif k == 3:
                t = rng.choice(["5", "null", "true", "[]", "{}", "[1,2]"])
                ov, x = {"data": t}, {"cls": "data-wrong-kind", "expect": "reject", "bucket": "reject-wrong-json-kind", "shown": t}
            elif k == 4:
                n = rng.choice([0, 1, 19, 21, 32, 40, 276, 20 + 65536])
                h = "0x" + rand_bytes(rng, n).hex()
                ov, x = {"to": '"%s"' % h}, {"cls": "address-length", "expect": "reject", "bucket": "reject-address-length", "shown": h}
            elif k == 5:
                tx["to"] = rand_bytes(rng, 20)
                ov, x = {"to": txgen.addr_token(rng, tx["to"])}, {"cls": "address-20", "expect": "accept", "bucket": "accept-address-20", "shown": ""}
            elif k == 6:
                tx["to"] = rand_bytes(rng, 20)
                ov, x = {"to": '"%s"' % tx["to"].hex()}, {"cls": "address-no-prefix", "expect": "either", "shown": ""}
                if rng.random() < 0.5:
                    # letter case that is neither all-lower nor the EIP-55 checksum; white space around the text: unspecified
                    spelled = rng.choice([txgen.addr_token(rng, tx["to"], loose=True), '"0x%s "' % tx["to"].hex(), '" 0x%s"' % tx["to"].hex(), '"0x%s"' % tx["to"].hex().upper()])
                    ov, x = {"to": spelled}, {"cls": "address-unspecified-spelling", "expect": "either", "shown": ""}
            elif k == 7:
                t = rng.choice(["5", "true", "[]", "{}", '"0xzz00000000000000000000000000000000000000"', '"0x 000000000000000000000000000000000000000"',
                                '"0x0x%s"' % ("11" * 19), '"0x%s  1"' % ("11" * 19), '"0x0x0x%s"' % ("11" * 20)])
                ov, x = {"to": t}, {"cls": "address-malformed", "expect": "reject", "bucket": "reject-address-length", "shown": t}
                if rng.random() < 0.15:
                    # a doubled prefix in front of exactly 20 bytes: the address clause only demands 20 bytes, so this spelling is
                    # unspecified (the ethaddr dependency accepts it); if accepted the value must be those 20 bytes
                    tx["to"] = rand_bytes(rng, 20)
                    ov, x = {"to": '"0x0x%s"' % tx["to"].hex()}, {"cls": "address-double-prefix", "expect": "either", "shown": ""}
            elif k in (8, 9, 10) and tx["kind"] != reftx.LEGACY:
                n = rng.choice([0, 1, 31, 33, 20, 64, 288, 32 + 65536]) if k != 10 else 32
                key = rand_bytes(rng, n)
                a = rand_bytes(rng, 20)
                pos = rng.randrange(3)
                slots = [rand_bytes(rng, 32) for _ in range(pos)] + [key] + [rand_bytes(rng, 32) for _ in range(rng.randrange(2))]
                tx["accessList"] = [(a, slots)]
                al = "[[%s,[%s]]]" % (txgen.addr_token(rng, a), ",".join('"0x%s"' % txgen.hex_case(rng, s.hex()) for s in slots))
                if k == 9:
                    al = "[[%s,[%s]]]" % (txgen.addr_token(rng, a), ",".join('"%s"' % s.hex() for s in slots))
                    ov, x = {"accessList": al}, {"cls": "storage-key-no-prefix", "expect": "reject", "bucket": "reject-storage-key-length", "shown": al}
                elif n == 32:
                    ov, x = {"accessList": al}, {"cls": "storage-key-32", "expect": "accept", "bucket": "accept-storage-key-32", "shown": ""}
                else:
                    ov, x = {"accessList": al}, {"cls": "storage-key-length", "expect": "reject", "bucket": "reject-storage-key-length", "shown": al[:100]}
            elif k == 11 and tx["kind"] != reftx.LEGACY:
                a = rand_bytes(rng, rng.choice([19, 21, 0, 32, 276]))
                al = '[["0x%s",[]]]' % a.hex()
                ov, x = {"accessList": al}, {"cls": "access-list-address-length", "expect": "reject", "bucket": "reject-address-length", "shown": al}
            elif k == 12:
                tx["data"] = rand_bytes(rng, rng.randint(1, 50))
                ov, x = {"data": '"0x%s"' % tx["data"].hex().upper()}, {"cls": "data-uppercase", "expect": "accept", "bucket": "accept-data-uppercase", "shown": ""}
            elif k == 13:
                tx["data"] = rand_bytes(rng, rng.randint(1, 50))
                ov, x = {"data": '"0X%s"' % tx["data"].hex()}, {"cls": "data-0X-prefix", "expect": "either", "shown": ""}
            elif k == 14 and tx["kind"] != reftx.LEGACY:
                t = rng.choice(["5", '"0x"', "{}", "[[]]", '[["0x%s"]]' % bytes(20).hex(), '[["0x%s",["0x%s"],[]]]' % (bytes(20).hex(), bytes(32).hex()),
                                '[["0x%s","0x%s"]]' % (bytes(20).hex(), bytes(32).hex()), "null"])
                ov, x = {"accessList": t}, {"cls": "access-list-shape", "expect": "reject", "bucket": "reject-wrong-json-kind", "shown": t}
            else:
                continue
            x["tx"] = txgen.tx_to_meta(tx)
            yield from both(lib_case("bytes", {"op": "tx.process", "json": _doc(rng, tx, ov)}, x))
