"""C14 — HD path text is unambiguous: standard indices only, canonical round trip."""
import re

from .. import cligen
from ..gen import both, lib_case, rand_bytes
from ..ref import bip39, eth
from ..run.core import V, abnormal

ID = "C14"
LEVEL = "exploration"
NEEDS = {"lib": ["dev", "release"], "cli": ["dev", "release"]}
RULE = ("path.parse / path.for_index / hdk.derive events and `address --hd-path/--account-index` process runs; the text is classified by "
        "the grammar m(/DEC['])+ with canonical decimals < 2^31 (must-accept: prints back identically, re-parses, derives the "
        "reference BIP-32 key), must-reject (component >= 2^31 hardened or not, empty component, missing root, negative, fractional, "
        "non-numeric, doubled marker, inner whitespace) or unspecified (+5, leading zeros, bare m, surrounding whitespace); "
        "for_index(i) prints m/44'/60'/0'/0/i for i < 2^31 and is an ordinary error above; distinct = distinct texts; non-trivial = "
        "must-accept or must-reject decision compared")
REQUIRED = ["accept-roundtrip", "accept-derives-reference-key", "reject-2^31", "reject-2^31-hardened", "reject-2^32-1", "reject-2^32", "reject-2^64",
            "reject-40-digits", "reject-empty-component", "reject-missing-root", "reject-negative", "reject-fraction", "reject-non-numeric",
            "reject-double-marker", "reject-inner-whitespace", "accept-index-2^31-1", "accept-index-0", "for-index-ok", "for-index-2^31-1",
            "for-index>=2^31-error", "for-index>=2^32-error", "cli-account-index-ok", "cli-account-index>=2^31-error",
            "cli-account-index>=2^32-error", "cli-hd-path-ok", "cli-hd-path-rejected", "accept-depth>=8", "accept-depth>=256"]
_CANON = re.compile(r"(0|[1-9][0-9]*)('?)\Z")
_LOOSE = re.compile(r"\+?([0-9]+)('?)\Z")


def classify(text):
    """('accept', comps) | ('reject', why) | ('either', comps-or-None)"""
    c = eth.parse_path_strict(text)
    if c is not None:
        return "accept", c
    if text == "m":
        return "either", None
    st = text.strip(" \t\n\r")
    if st != text and (eth.parse_path_strict(st) is not None or st == "m"):
        return "either", eth.parse_path_strict(st)
    if not text.startswith("m/"):
        return "reject", "missing-root"
    comps, either = [], False
    for part in text[2:].split("/"):
        m = _CANON.match(part)
        if m:
            v = int(m.group(1))
            if v >= 2**31:
                return "reject", ">=2^31"
            comps.append((v, m.group(2) == "'"))
            continue
        m = _LOOSE.match(part)
        if m:
            v = int(m.group(1))
            if v >= 2**31:
                return "reject", ">=2^31"
            comps.append((v, m.group(2) == "'"))
            either = True
            continue
        if part == "":
            return "reject", "empty-component"
        if re.match(r"-[0-9]", part):
            return "reject", "negative"
        if re.match(r"[0-9]+[.,][0-9]+'?\Z", part):
            return "reject", "fraction"
        if re.match(r"[0-9]+''+\Z", part) or part in ("'", "''"):
            return "reject", "double-marker"
        if re.search(r"\s", part):
            return "reject", "inner-whitespace"
        return "reject", "non-numeric"
    return ("either", comps) if either else ("accept", comps)


def _reject_bucket(v, why, text):
    if why == ">=2^31":
        nums = [int(x) for x in re.findall(r"[0-9]+", text[2:])]
        big = max(nums)
        hard = any(p.endswith("'") and int(re.match(r"\+?([0-9]+)", p).group(1)) >= 2**31 for p in text[2:].split("/") if re.match(r"\+?[0-9]+'?\Z", p))
        if big == 2**31:
            v.bucket("reject-2^31-hardened" if hard else "reject-2^31")
        elif big == 2**32 - 1:
            v.bucket("reject-2^32-1")
        elif big == 2**32:
            v.bucket("reject-2^32")
        elif big == 2**64:
            v.bucket("reject-2^64")
        elif len(str(big)) >= 40:
            v.bucket("reject-40-digits")
        else:
            v.bucket("reject->=2^31-other")
    else:
        v.bucket("reject-" + why)


def judge_parse(case, obs):
    o = obs[0]
    v = V()
    if "ok" not in o and "err" not in o:
        return v
    text = case["steps"][0]["lib"]["text"]
    cls, comps = classify(text)
    if cls == "accept":
        if "ok" not in o:
            return v.bad("C14/canonical/rejected", "canonical path %r rejected: %s" % (text[:80], o.get("err")))
        r = o["ok"]
        if r["printed"] != text:
            v.bad("C14/canonical/printed", "path %r prints back as %r" % (text[:80], r["printed"][:80]))
        if r["reparse"].get("ok") != r["printed"]:
            v.bad("C14/canonical/reparse", "printed form does not re-parse to itself: %s" % (r["reparse"],))
        if [tuple(c) for c in r["components"]] != [tuple(c) for c in comps]:
            v.bad("C14/canonical/components", "components %s differ from the text %r" % (r["components"], text[:80]))
        v.bucket("accept-roundtrip")
        if any(i == 2**31 - 1 for i, _ in comps):
            v.bucket("accept-index-2^31-1")
        if any(i == 0 for i, _ in comps):
            v.bucket("accept-index-0")
        if len(comps) >= 8:
            v.bucket("accept-depth>=8")
        if len(comps) >= 256:
            v.bucket("accept-depth>=256")
    elif cls == "reject":
        if "ok" in o:
            return v.bad("C14/%s/accepted" % comps, "path %r accepted (prints as %r)" % (text[:80], o["ok"]["printed"][:80]))
        _reject_bucket(v, comps, text)
    else:
        if "ok" in o and comps is not None and [tuple(c) for c in o["ok"]["components"]] != [tuple(c) for c in comps]:
            return v.bad("C14/unspecified/unnatural", "unspecified spelling %r accepted as %s" % (text[:80], o["ok"]["components"]))
        v.nontrivial = False
        v.bucket("either-" + ("accepted" if "ok" in o else "rejected"))
    return v


def judge_for_index(case, obs):
    o = obs[0]
    v = V()
    if "ok" not in o and "err" not in o:
        return v
    i = int(case["steps"][0]["lib"]["index"])
    if i < 2**31:
        if "ok" not in o:
            return v.bad("C14/for-index/rejected", "for_index(%d) failed: %s" % (i, o.get("err")))
        if o["ok"]["printed"] != "m/44'/60'/0'/0/%d" % i:
            return v.bad("C14/for-index/wrong-path", "for_index(%d) = %s" % (i, o["ok"]["printed"]))
        v.bucket("for-index-ok")
        if i == 2**31 - 1:
            v.bucket("for-index-2^31-1")
    else:
        if "ok" in o:
            return v.bad("C14/for-index>=2^31/accepted", "for_index(%d) returned %s" % (i, o["ok"]["printed"]))
        v.bucket("for-index>=2^32-error" if i >= 2**32 else "for-index>=2^31-error")
    return v


def judge_derive(case, obs):
    """Canonical text and its printed form derive the same key, and it is the reference key."""
    v = V()
    if any("ok" not in o and "err" not in o for o in obs):
        return v
    p, d = obs
    text = case["steps"][0]["lib"]["text"]
    seed = bytes.fromhex(case["steps"][1]["lib"]["seed"])
    comps = eth.parse_path_strict(text)
    if "ok" not in p or "ok" not in d:
        return v.bad("C14/derive/rejected", "canonical path %r rejected" % text[:80])
    want = "%064x" % eth.bip32_derive(seed, comps)
    if d["ok"]["secret"] != want or d["ok"]["printed"] != text:
        return v.bad("C14/derive/other-key", "path %r derives another key than the BIP-32 reference" % text[:80])
    return v.bucket("accept-derives-reference-key")


def judge_cli(case, obs):
    o = obs[0]
    xm = case["x"]
    v = V()
    if abnormal(o) or "exit" not in o:
        return v
    words = xm["words"]
    if xm["kind"] == "index":
        i = xm["index"]
        if i < 2**31:
            want = eth.address_of_key(eth.bip32_derive(bip39.seed(words, ""), eth.default_path(i)))
            if o["exit"] != 0 or o["stdout"].strip() != want:
                return v.bad("C14/cli-account-index/wrong", "--account-index %d: exit %d, output %r, reference %s" % (i, o["exit"], o["stdout"][:60], want))
            return v.bucket("cli-account-index-ok")
        if o["exit"] == 0 or o["stdout"].strip():
            return v.bad("C14/cli-account-index>=2^31/accepted", "--account-index %d printed %r (exit %d)" % (i, o["stdout"][:60], o["exit"]))
        return v.bucket("cli-account-index>=2^32-error" if i >= 2**32 else "cli-account-index>=2^31-error")
    text = xm["path"]
    cls, comps = classify(text)
    if cls == "accept":
        want = eth.address_of_key(eth.bip32_derive(bip39.seed(words, ""), comps))
        if o["exit"] != 0 or o["stdout"].strip() != want:
            return v.bad("C14/cli-hd-path/wrong", "--hd-path %r: exit %d, output %r, reference %s" % (text[:60], o["exit"], o["stdout"][:60], want))
        return v.bucket("cli-hd-path-ok")
    if cls == "reject":
        if o["exit"] == 0 or o["stdout"].strip():
            return v.bad("C14/cli-hd-path-%s/accepted" % comps, "--hd-path %r printed %r" % (text[:60], o["stdout"][:60]))
        return v.bucket("cli-hd-path-rejected")
    v.nontrivial = False
    return v.bucket("cli-either")


JUDGES = {"parse": judge_parse, "for_index": judge_for_index, "derive": judge_derive, "cli": judge_cli}
BIG = [2**31, 2**31 + 1, 2**32 - 1, 2**32, 2**32 + 1, 2**64, 2**64 - 1, 2**63, 10**39, 10**40 + 7, 4294967296 + 44, 2**31 + 44, 2**31 + 60,
       2**128, 2**128 + 7, 3 * 2**128 + 7, 2**256, 2**256 + 7, 2**512 + 1, 2**96 + 3, 2**127, 2**129 + 44, 5 * 2**64 + 44, 2**64 + 60, 7 * 2**32 + 1, 10**20, 10**100]
MALFORMED = ["", "m", "m/", "m//1", "m/1/", "m/1//2", "/1", "1/2", "M/1", "n/1", "m1", "m /1", " m/1", "m/1 ", "m/ 1", "m/1 /2", "m/-1", "m/-0", "m/1.5",
             "m/1,5", "m/1e3", "m/0x10", "m/a", "m/1h", "m/1H", "m/1''", "m/'", "m/''", "m/'1", "m/1'2", "m/+5", "m/01", "m/00", "m/+0", "m/1_000",
             "m/١", "m/1’", "m\\1", "m/1\t", "m/1\n", "m/m/1", "m/44'/60'/0'/0/", "m/44'/60'/0'//0", "44'/60'/0'/0/0", "m/1/-2'", "m/0.0"]


def shards(tier, seed):
    T = tier == "thorough"
    return ([{"name": "parse-%d" % i, "count": 100000 if T else 2000, "first": i == 0} for i in range(8)]
            + [{"name": "for-index", "count": 50000 if T else 1000}, {"name": "derive", "count": 6000 if T else 500}]
            + [{"name": "cli-%d" % i, "count": 500 if T else 40, "first": i == 0} for i in range(8)])


def rand_canonical(rng):
    depth = rng.choice([1, 2, 3, 5, 5, 8, 9, 12, 20])
    return eth.format_path([(rng.choice([0, 1, 44, 60, 2**31 - 1, 2**31 - 2, rng.randrange(2**31), rng.randrange(100)]), rng.random() < 0.5)
                            for _ in range(depth)])


def mutate_path(rng):
    base = rand_canonical(rng)
    parts = base[2:].split("/")
    i = rng.randrange(len(parts))
    k = rng.randrange(8)
    if k == 0:
        parts[i] = str(rng.choice(BIG)) + ("'" if rng.random() < 0.5 else "")
    elif k == 1:
        parts[i] = ""
    elif k == 2:
        parts[i] = rng.choice(["-1", "1.5", "1e3", "0x10", "a", "1h", "1''", "'", "+5", "01", " 1", "1 ", "1 2", "٢"])
    elif k == 3:
        return rng.choice(["", "M/", "/", "n/", "m"]) + "/".join(parts)
    elif k == 4:
        return "m/" + "/".join(parts) + rng.choice(["/", "//", " ", "'", "/'"])
    elif k == 5:
        parts[i] = parts[i].rstrip("'") + rng.choice(["''", "h", "H", "'h", "’"])
    elif k == 6:
        return "m/" + "/".join(parts)
    else:
        parts.insert(i, rng.choice(["", "x", str(2**31)]))
    return "m/" + "/".join(parts)


def gen(shard, rng, tier):
    name = shard["name"]
    if name.startswith("parse-"):
        if shard.get("first"):
            for t in MALFORMED:
                yield from both(lib_case("parse", {"op": "path.parse", "text": t}, {"cls": "malformed"}))
            for b in BIG:
                for t in ("m/%d", "m/%d'", "m/44'/60'/0'/0/%d", "m/%d'/0", "m/0/%d/1'"):
                    yield from both(lib_case("parse", {"op": "path.parse", "text": t % b}, {"cls": "big-index"}))
            # very deep paths: every component counts, wherever it sits
            for depth in (31, 32, 33, 64, 127, 128, 129, 254, 255, 256, 257, 300, 1000, 5000):
                comps = [(rng.choice([0, 1, 2**31 - 1, rng.randrange(2**31)]), rng.random() < 0.5) for _ in range(depth)]
                t = eth.format_path(comps)
                yield from both(lib_case("parse", {"op": "path.parse", "text": t}, {"cls": "deep"}))
                for tail in ("/x", "/-1", "/2147483648", "/", "/1.5", "/0''"):
                    yield from both(lib_case("parse", {"op": "path.parse", "text": t + tail}, {"cls": "deep-malformed-tail"}))
                if depth <= 300:
                    seed = rand_bytes(rng, 32).hex()
                    yield {"j": "derive", "profile": "release", "x": {"cls": "deep-derive"},
                           "steps": [{"lib": {"op": "path.parse", "text": t}}, {"lib": {"op": "hdk.derive", "seed": seed, "path": t}}]}
        for _ in range(shard["count"]):
            t = rand_canonical(rng) if rng.random() < 0.4 else mutate_path(rng)
            yield from both(lib_case("parse", {"op": "path.parse", "text": t}, {"cls": "path"}))
    elif name == "for-index":
        idx = [0, 1, 2, 7, 2**31 - 2, 2**31 - 1, 2**31, 2**31 + 1, 2**32 - 1, 2**32, 2**32 + 1, 2**63, 2**64 - 1]
        for _ in range(shard["count"]):
            idx.append(rng.randrange(2**31) if rng.random() < 0.6 else rng.randrange(2**31, 2**64))
        for i in idx:
            yield from both(lib_case("for_index", {"op": "path.for_index", "index": str(i)}, {"cls": "for-index"}))
    elif name == "derive":
        for _ in range(shard["count"]):
            t = rand_canonical(rng)
            seed = rand_bytes(rng, 64).hex()
            for p in ("release", "dev"):
                yield {"j": "derive", "profile": p, "x": {"cls": "derive"}, "steps": [{"lib": {"op": "path.parse", "text": t}},
                                                                                  {"lib": {"op": "hdk.derive", "seed": seed, "path": t}}]}
    else:
        todo = []
        if shard.get("first"):
            todo += [("index", i) for i in (0, 1, 2**31 - 1, 2**31, 2**32 - 1, 2**32, 2**64 - 1)]
            todo += [("path", "m/%d'" % 2**31), ("path", "m/44'/60'/0'/0/%d" % 2**31), ("path", "m/0'"), ("path", "m//1"), ("path", "1/2")]
            todo += [("path", t) for t in MALFORMED if t and "\x00" not in t]
            todo += [("path", "m/44\u2019/60\u2019/0\u2019/0/1"), ("path", "m/44\u2032/60'/0'/0/1"), ("path", "m/44`/60'/0'/0/0"), ("path", "m/44h/60h/0h/0/0"),
                     ("path", "m/44H/60H/0H/0/0"), ("path", "m\\44'\\60'"), ("path", "m/44'/60'/0'/0/1_0"), ("path", "M/44'/60'/0'/0/0")]
        for _ in range(shard["count"]):
            if rng.random() < 0.5:
                todo.append(("index", rng.choice([0, 1, 7, 2**31 - 1, 2**31, 2**31 + 5, 2**32 - 1, 2**32, 2**40, 2**63, 2**64 - 1, rng.randrange(2**31)])))
            else:
                todo.append(("path", rand_canonical(rng) if rng.random() < 0.5 else mutate_path(rng)))
        for kind, val in todo:
            acc = cligen.rand_account(rng, simple=True)
            use_env = rng.random() < 0.4
            argv, env = ["address"], {"MNEMONIC": " ".join(acc["words"])}
            if kind == "index":
                if use_env:
                    env["ACCOUNT_INDEX"] = str(val)
                else:
                    argv.append("--account-index=%d" % val)
                x = {"cls": "cli-index", "kind": "index", "index": val, "words": acc["words"]}
            else:
                if "\x00" in val:
                    continue
                if use_env:
                    env["HD_PATH"] = val
                else:
                    argv.append("--hd-path=%s" % val)
                x = {"cls": "cli-path", "kind": "path", "path": val, "words": acc["words"]}
            yield {"j": "cli", "profile": "dev" if rng.random() < 0.25 else "release", "x": x, "steps": [{"cli": {"argv": argv, "env": env}}]}
