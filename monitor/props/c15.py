"""C15 — printed signatures parse back; sign and hash commands interoperate."""
from .. import cligen, txgen
from ..gen import both, boundary_scalar, lib_case, rand_bytes, limb_value
from ..ref import eth, secp
from ..ref import tx as reftx
from ..ref.keccak import keccak256
from ..run.core import V, abnormal

ID = "C15"
LEVEL = "exploration"
NEEDS = {"lib": ["dev", "release"], "cli": ["dev", "release"]}
N = secp.N
RULE = ("sig.parse(text) events on printed signatures (with and without 0x) and on malformed text (every length 0..140, non-hex, v in "
        "{0,1,26,29,35,36,255}, r or s in {0,n,n+1,2^256-1}); key.sign text form; three-step CLI histories `sign transaction` / `sign "
        "transaction --signature-only` / `hash transaction --signature <that output>` whose hash must equal own Keccak of the bytes the "
        "full command printed; distinct = distinct texts / histories; non-trivial = parse result or pipeline hash compared")
REQUIRED = ["roundtrip-0x", "roundtrip-no-prefix", "text-format", "reject-length", "reject-non-hex", "reject-v", "reject-r-zero", "reject-s-zero",
            "reject-r>=n", "reject-s>=n", "accept-r=n-1", "accept-s=n-1-or-unspecified", "pipeline-legacy", "pipeline-eip2930", "pipeline-eip1559",
            "pipeline-hash-equals-keccak-of-signed", "parity0", "parity1"]
HEX = "0123456789abcdef"


def classify_sig_text(text):
    """('accept', (r,s,parity)) | ('reject', why) | ('either', (r,s,parity)|None)"""
    body = text[2:] if text.startswith("0x") else text
    if len(body) != 130:
        if text.startswith("0X") and len(text) == 132:
            return "either", None
        return "reject", "length"
    if any(c not in "0123456789abcdefABCDEF" for c in body):
        return "reject", "non-hex"
    r, s, v = int(body[:64], 16), int(body[64:128], 16), int(body[128:], 16)
    if v not in (27, 28):
        return "reject", "v"
    if r == 0:
        return "reject", "r-zero"
    if s == 0:
        return "reject", "s-zero"
    if r >= N:
        return "reject", "r>=n"
    if s >= N:
        return "reject", "s>=n"
    val = (r, s, v - 27)
    if s > secp.HALF_N or body != body.lower():
        return "either", val  # high-s input, upper-case digits: unspecified
    return "accept", val


def judge_parse(case, obs):
    o = obs[0]
    v = V()
    if "ok" not in o and "err" not in o:
        return v
    text = case["steps"][0]["lib"]["text"]
    cls, val = classify_sig_text(text)
    if cls == "accept":
        if "ok" not in o:
            return v.bad("C15/printed-%s/rejected" % ("0x" if text.startswith("0x") else "bare"), "signature text %s.. rejected: %s" % (text[:24], o.get("err")))
        r = o["ok"]
        got = (int(r["r"], 16), int(r["s"], 16), r["parity"])
        if got != val:
            return v.bad("C15/printed/other-signature", "parsed (r,s,parity) differ from the text")
        if r["text"] != eth.sig_text(*val):
            return v.bad("C15/printed/reprint", "parsed signature prints as %s" % r["text"][:40])
        v.bucket("roundtrip-0x" if text.startswith("0x") else "roundtrip-no-prefix")
        v.bucket("parity%d" % val[2])
        if val[0] == N - 1:
            v.bucket("accept-r=n-1")
    elif cls == "reject":
        if "ok" in o:
            return v.bad("C15/%s/accepted" % val, "text that is not a signature (%s) parsed: %s.." % (val, text[:40]))
        v.bucket("reject-" + val)
    else:
        if "ok" in o and val is not None and (int(o["ok"]["r"], 16), int(o["ok"]["s"], 16), o["ok"]["parity"]) != val:
            return v.bad("C15/unspecified/unnatural", "unspecified spelling accepted with other scalars")
        v.nontrivial = False
        v.bucket("accept-s=n-1-or-unspecified")
    return v


def judge_signtext(case, obs):
    o = obs[0]
    v = V()
    if "ok" not in o:
        return v
    sig = o["ok"]["sig"]
    want = "0x%064x%064x%02x" % (int(sig["r"], 16), int(sig["s"], 16), 27 + sig["parity"])
    if sig["text"] != want or len(sig["text"]) != 132:
        return v.bad("C15/format/text", "signature prints as %s, expected %s" % (sig["text"], want))
    return v.bucket("text-format")


def judge_pipeline(case, obs):
    v = V()
    if any(abnormal(o) or "exit" not in o for o in obs):
        return v
    full, only, hashed = obs
    xm = case["x"]
    if full["exit"] != 0 or only["exit"] != 0:
        return v.bad("C15/pipeline/sign-failed", "sign transaction failed: %s %s" % (full["stderr"][-100:], only["stderr"][-100:]))
    sigtext = only["stdout"].strip()
    if hashed["exit"] != 0:
        return v.bad("C15/pipeline/hash-rejects-printed-signature", "`hash transaction --signature %s..` failed: %s" % (sigtext[:20], hashed["stderr"][-160:]))
    raw = bytes.fromhex(full["stdout"].strip()[2:])
    want = "0x" + keccak256(raw).hex()
    if hashed["stdout"].strip() != want:
        return v.bad("C15/pipeline/hash-mismatch", "hash with the printed signature is %s, Keccak of the signed transaction is %s" % (hashed["stdout"].strip(), want))
    # the signature printed alone is the one inside the signed transaction
    dtx, vv, r, s = reftx.decode_signed(raw)
    if "0x%064x%064x" % (r, s) != sigtext[:130]:
        return v.bad("C15/pipeline/signature-differs", "--signature-only prints a different signature than the one embedded in the signed transaction")
    v.bucket("pipeline-" + xm["kind"])
    return v.bucket("pipeline-hash-equals-keccak-of-signed")


JUDGES = {"parse": judge_parse, "signtext": judge_signtext, "pipeline": judge_pipeline}


def shards(tier, seed):
    T = tier == "thorough"
    return ([{"name": "printed-%d" % i, "count": 8000 if T else 800} for i in range(4)]
            + [{"name": "malformed", "count": 150000 if T else 3000, "exhaustive": "every text length 0..140; v bytes 0..255"}]
            + [{"name": "pipeline-%d" % i, "count": 400 if T else 25} for i in range(8)])


def gen(shard, rng, tier):
    name = shard["name"]
    if name.startswith("printed-"):
        for _ in range(shard["count"]):
            x = boundary_scalar(rng)
            d = rand_bytes(rng, 32)
            r, s, par, _ = secp.sign_rfc6979(x, (int.from_bytes(d, "big") % N).to_bytes(32, "big"))
            text = eth.sig_text(r, s, par)
            yield from both(lib_case("parse", {"op": "sig.parse", "text": text}, {"cls": "printed"}))
            yield from both(lib_case("parse", {"op": "sig.parse", "text": text[2:]}, {"cls": "printed-bare"}))
            if rng.random() < 0.3:
                yield from both(lib_case("signtext", {"op": "key.sign", "secret": "%064x" % x, "digest": d.hex()}, {"cls": "format"}))
    elif name == "malformed":
        good = eth.sig_text(*secp.sign_rfc6979(5, b"\x11" * 32)[:3])
        for n in range(0, 141):
            for pre in ("", "0x"):
                t = pre + "".join(rng.choice(HEX) for _ in range(n))
                if n == 130:
                    t = t[:-2] + rng.choice(["1b", "1c"])
                yield from both(lib_case("parse", {"op": "sig.parse", "text": t}, {"cls": "length-%d" % n}))
        for n in (130 + 512, 130 + 2 * 65536, 128 + 512, 132 + 512):
            # text lengths equal to a legal one modulo 512 / 2^17 characters (65 bytes + 256 k)
            for pre in ("", "0x"):
                for t in (good[2:] + "".join(rng.choice(HEX) for _ in range(n - 130)), "".join(rng.choice(HEX) for _ in range(n - 130)) + good[2:]):
                    yield from both(lib_case("parse", {"op": "sig.parse", "text": pre + t[:n]}, {"cls": "length-%d" % n}))
        for vb in range(256):
            yield lib_case("parse", {"op": "sig.parse", "text": good[:-2] + "%02x" % vb}, {"cls": "v-byte"}, "dev" if vb % 2 else "release")
        scal = [0, 1, N - 1, N, N + 1, 2**256 - 1, secp.HALF_N, secp.HALF_N + 1, 2**255]
        for r in scal:
            for s in scal:
                for vb in (27, 28):
                    t = "0x%064x%064x%02x" % (r, s, vb)
                    yield from both(lib_case("parse", {"op": "sig.parse", "text": t}, {"cls": "scalars"}))
                    yield from both(lib_case("parse", {"op": "sig.parse", "text": t[2:]}, {"cls": "scalars"}))
        for _ in range(400):
            r, s = (limb_value(rng), rng.randrange(1, secp.HALF_N)) if rng.random() < 0.5 else (rng.randrange(1, N), limb_value(rng))
            t = "0x%064x%064x%02x" % (r, s, rng.choice([27, 28]))
            yield from both(lib_case("parse", {"op": "sig.parse", "text": t if rng.random() < 0.7 else t[2:]}, {"cls": "limb-scalars"}))
        # one non-hex character at the first / last position of each component (where per-component integer parsers are lenient:
        # a sign, a blank, a digit separator), with and without the prefix
        for pos in (2, 3, 65, 66, 67, 129, 130, 131):
            for chx in "+-_ \t.,xXgG\u00e9":
                t = list(good)
                t[pos] = chx
                yield from both(lib_case("parse", {"op": "sig.parse", "text": "".join(t)}, {"cls": "non-hex-at-component-edge"}))
                yield from both(lib_case("parse", {"op": "sig.parse", "text": "".join(t)[2:]}, {"cls": "non-hex-at-component-edge"}))
        for _ in range(shard["count"]):
            t = list(good)
            k = rng.randrange(7)
            if k == 0:
                t[rng.randrange(2, len(t))] = rng.choice("gxz -+_,.Gé")
            elif k == 1:
                del t[rng.randrange(len(t))]
            elif k == 2:
                t.insert(rng.randrange(len(t)), rng.choice(HEX + " "))
            elif k == 3:
                t = list("0x" + "".join(t))
            elif k == 4:
                t = list(good.upper().replace("0X", rng.choice(["0x", "0X", ""])))
            elif k == 5:
                t = list(good + rng.choice(["\n", " ", "00", "1b"]))
            else:
                t = list(rng.choice(["", "0x", "0", "x", "1b", "0x1b", good[:66], good[:130]]))
            yield from both(lib_case("parse", {"op": "sig.parse", "text": "".join(t)}, {"cls": "mutated"}))
    else:
        for _ in range(shard["count"]):
            tx = txgen.rand_tx(rng)
            if tx["kind"] == reftx.LEGACY and tx.get("chainId") is None:
                tx["chainId"] = rng.choice([1, 5, 1337])
            acc = cligen.rand_account(rng, simple=rng.random() < 0.6)
            toks = txgen.tokens_for(rng, tx, spell=("dec", "hex", "int"))
            doc = txgen.render(rng, toks).encode()
            aargv, env = cligen.account_args(rng, acc)
            files = {"tx.json": doc.hex()}
            steps = [{"cli": {"argv": ["sign"] + aargv + ["transaction", "@FILE:tx.json@"], "env": env, "files": files}},
                     {"cli": {"argv": ["sign"] + aargv + ["transaction", "@FILE:tx.json@", "--signature-only"], "env": env, "files": files}},
                     {"cli": {"argv": ["hash", "transaction", "@FILE:tx.json@", "--signature", "@OUT:1@"], "files": files}}]
            if rng.random() < 0.5:
                steps[2] = {"cli": {"argv": ["hash", "transaction", "-", "--signature=@OUT:1@"], "stdin_hex": doc.hex()}}
            yield {"j": "pipeline", "profile": "dev" if rng.random() < 0.25 else "release", "x": {"cls": "pipeline", "kind": tx["kind"]}, "steps": steps}
