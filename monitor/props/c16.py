"""C16 — every command acts on the selected account and prints the standard result."""
from .. import cligen, tdgen, txgen
from ..gen import rand_bytes
from ..ref import eth, secp, td
from ..ref import tx as reftx
from ..ref.keccak import keccak256
from ..run.core import V, abnormal

ID = "C16"
LEVEL = "exploration"
NEEDS = {"cli": ["dev", "release"]}
N = secp.N
RULE = ("process runs of address / export / public-key / sign {message,transaction,typeddata,raw} / hash {message,transaction,typeddata,"
        "typeddata --message-hash,data} with the mnemonic, passphrase and selector given by flag or environment and the input through a "
        "file or stdin; expected stdout is computed by the full reference pipeline BIP-39 -> PBKDF2 -> BIP-32 -> key -> digest -> "
        "RFC 6979; flag and environment variants must print identical output; both selectors together must be a usage error. "
        "distinct = distinct (command line, environment, input); non-trivial = stdout compared with the reference")
CMDS = ["address", "export", "public-key", "sign-message", "sign-transaction", "sign-transaction-sigonly", "sign-typeddata", "sign-raw", "hash-message",
        "hash-transaction", "hash-typeddata", "hash-typeddata-message-hash", "hash-data"]
REQUIRED = (["ok-" + c for c in CMDS] + ["selector-default", "selector-index-nonzero", "selector-index-2^31-1", "selector-path", "password-nonempty",
            "flags-vs-env-identical", "both-selectors-flag+flag-refused", "both-selectors-flag+env-refused", "both-selectors-env+env-refused",
            "input-file", "input-stdin", "sign-raw-digest>=n-valid", "input-stdin>64KiB", "flag-beats-environment",
            "explicit-empty-password-flag-beats-environment", "big-input-same-through-all-channels", "decoy-keys-judged"])


def expected_sig_text(key, digest):
    r, s, par, _ = secp.sign_rfc6979(key, digest)
    return eth.sig_text(r, s, par)


def expected_output(xm):
    """The exact stdout (without the trailing newline) the reference pipeline predicts, or a callable check."""
    cmd = xm["cmd"]
    key = int(xm["key"], 16) if xm.get("key") else None
    data = bytes.fromhex(xm["input"]) if xm.get("input") is not None else None
    if cmd == "address":
        return eth.address_of_key(key)
    if cmd == "export":
        return "0x%064x" % key
    if cmd == "public-key":
        return "0x" + secp.ser_uncompressed(secp.pubkey(key)).hex()
    if cmd == "sign-message":
        return expected_sig_text(key, eth.eip191_digest(data))
    if cmd == "hash-message":
        return "0x" + eth.eip191_digest(data).hex()
    if cmd == "hash-data":
        return "0x" + keccak256(data).hex()
    if cmd in ("sign-transaction", "sign-transaction-sigonly", "hash-transaction"):
        tx = txgen.tx_from_meta(xm["tx"])
        h = reftx.signing_hash(tx)
        if cmd == "hash-transaction":
            return "0x" + h.hex()
        r, s, par, _ = secp.sign_rfc6979(key, h)
        if cmd == "sign-transaction-sigonly":
            return eth.sig_text(r, s, par)
        return "0x" + reftx.signed_bytes(tx, r, s, par).hex()
    if cmd in ("sign-typeddata", "hash-typeddata", "hash-typeddata-message-hash"):
        cls, out = td.classify(data.decode())
        assert cls == "accept", cls
        if cmd == "hash-typeddata":
            return "0x" + out[0].hex()
        if cmd == "hash-typeddata-message-hash":
            return "0x" + out[2].hex()
        return expected_sig_text(key, out[0])
    if cmd == "sign-raw":
        d = bytes.fromhex(xm["digest"])
        if int.from_bytes(d, "big") < N:
            return expected_sig_text(key, d)
        return None
    raise ValueError(cmd)


def judge_cmd(case, obs):
    v = V()
    if any(abnormal(o) or "exit" not in o for o in obs):
        return v
    xm = case["x"]
    want = expected_output(xm)
    for k, o in enumerate(obs):
        if o["exit"] != 0:
            return v.bad("C16/%s/failed" % xm["cmd"], "`%s` exit %d: %s" % (xm["cmd"], o["exit"], o["stderr"][-200:]))
        out = o["stdout"].rstrip("\r\n")
        if "\n" in out or not out:
            return v.bad("C16/%s/output-shape" % xm["cmd"], "stdout is not one line: %r" % o["stdout"][:100])
        if want is None:
            # sign raw over a digest >= n: only validity and recoverability
            d = bytes.fromhex(xm["digest"])
            key = int(xm["key"], 16)
            ok = len(out) == 132 and out.startswith("0x")
            if ok:
                r, s, vv = int(out[2:66], 16), int(out[66:130], 16), int(out[130:], 16)
                ok = vv in (27, 28) and 1 <= r < N and 1 <= s <= secp.HALF_N and secp.recover(d, r, s, vv - 27) == secp.pubkey(key)
            if not ok:
                return v.bad("C16/sign-raw/not-the-account", "`sign raw` over a digest >= n is not a valid recoverable low-s signature of the account")
            v.bucket("sign-raw-digest>=n-valid")
        elif out != want:
            return v.bad("C16/%s/%s" % (xm["cmd"], xm["selkind"]),
                         "`%s` printed %s.., the reference pipeline gives %s.. (selector %s, passphrase %r)" % (xm["cmd"], out[:50], want[:50], xm["sel"], xm["password"][:20]))
    if len(obs) == 2:
        if obs[0]["stdout"] != obs[1]["stdout"]:
            return v.bad("C16/%s/flags-vs-env" % xm["cmd"], "flag and environment variants print different output")
        v.bucket("flags-vs-env-identical")
    v.bucket("ok-" + xm["cmd"])
    v.bucket({"default": "selector-default", "index0": "selector-default", "index": "selector-index-nonzero", "path": "selector-path"}[xm["selkind"]])
    if xm["sel"] == ["index", 2**31 - 1]:
        v.bucket("selector-index-2^31-1")
    if xm["password"]:
        v.bucket("password-nonempty")
    if xm.get("precedence"):
        v.bucket("flag-beats-environment")
        if not xm["password"]:
            v.bucket("explicit-empty-password-flag-beats-environment")
    if xm.get("channel"):
        v.bucket("input-" + xm["channel"])
        if xm["channel"] == "stdin" and len(xm.get("input", "")) > 2 * 65536:
            v.bucket("input-stdin>64KiB")
    return v


def judge_conflict(case, obs):
    o = obs[0]
    v = V()
    if abnormal(o) or "exit" not in o:
        return v
    how = case["x"]["how"]
    if o["exit"] == 0 or o["stdout"].strip():
        return v.bad("C16/both-selectors-%s/accepted" % how, "--account-index and --hd-path combined (%s): exit %d, stdout %r" % (how, o["exit"], o["stdout"][:60]))
    return v.bucket("both-selectors-%s-refused" % how)


def judge_same_output(case, obs):
    """Metamorphic: the same bytes through different channels (file, stdin, /dev/stdin) give byte-identical output. Used for inputs
    too large for the pure-Python reference hash."""
    v = V()
    if any(abnormal(o) or "exit" not in o for o in obs):
        return v
    if any(o["exit"] != 0 for o in obs):
        return v.bad("C16/%s/big-input-failed" % case["x"]["cmd"], "exit %s on a %d-byte input: %s" % ([o["exit"] for o in obs], case["x"]["size"], obs[0]["stderr"][-100:]))
    if len({o["stdout"] for o in obs}) != 1:
        return v.bad("C16/%s/channel-dependent-output" % case["x"]["cmd"],
                     "the same %d bytes give different results through file / stdin / /dev/stdin: %s" % (case["x"]["size"], [o["stdout"].strip()[:24] for o in obs]))
    return v.bucket("big-input-same-through-all-channels")


def judge_decoy_pair(case, obs):
    """`hash transaction` and `sign transaction` on one document that carries foreign keys (from, type, input, ...). Whether such a
    document is accepted is not specified, but both commands must agree, and if accepted the foreign keys change nothing."""
    v = V()
    if any(abnormal(o) or "exit" not in o for o in obs):
        return v
    h, s = obs
    xm = case["x"]
    if (h["exit"] == 0) != (s["exit"] == 0):
        return v.bad("C16/decoy-keys/sign-and-hash-disagree", "foreign keys %s: `hash transaction` exit %d, `sign transaction` exit %d (%s)" % (
            xm["decoys"], h["exit"], s["exit"], (s["stderr"] or h["stderr"])[-120:]))
    if h["exit"] != 0:
        v.nontrivial = False
        return v.bucket("decoy-keys-rejected-by-both").bucket("decoy-keys-judged")
    tx = txgen.tx_from_meta(xm["tx"])
    hd = reftx.signing_hash(tx)
    key = int(xm["key"], 16)
    r, s_, par, _ = secp.sign_rfc6979(key, hd)
    if h["stdout"].strip() != "0x" + hd.hex() or s["stdout"].strip() != "0x" + reftx.signed_bytes(tx, r, s_, par).hex():
        return v.bad("C16/decoy-keys/changed-the-result", "foreign keys %s changed what is hashed / signed" % xm["decoys"])
    return v.bucket("decoy-keys-ignored-by-sign-and-hash").bucket("decoy-keys-judged")


JUDGES = {"cmd": judge_cmd, "conflict": judge_conflict, "same": judge_same_output, "decoy": judge_decoy_pair}


def shards(tier, seed):
    T = tier == "thorough"
    return [{"name": "cmds-%d" % i, "count": 3500 if T else 140} for i in range(16)] + [{"name": "big-inputs", "sizes": [(1 << 24) + 4096, 1 << 26] if T else [(1 << 24) + 4096]}]


def _steps_for(rng, cmd, acc, xm):
    """Returns the list of argv-builder closures f(account_argv) -> (argv, files, stdin_hex)."""
    inp = None
    if cmd in ("sign-message", "hash-message", "hash-data"):
        n = rng.choice([0, 1, 12, 100, 1000, rng.randrange(0, 500)])
        if rng.random() < 0.08:
            n = rng.choice([4095, 4096, 4097, 8191, 8192, 8193, 16384, 32768, 65535, 65536, 65537, 100000, 131072, 200000])  # buffer-size boundaries, more than one pipe buffer
        inp = rand_bytes(rng, min(n, 4096)) * (n // 4096 + 1)
        inp = inp[:n]
        if rng.random() < 0.1:
            inner = rand_bytes(rng, rng.randrange(0, 30))
            inp = rng.choice([b"\x19Ethereum Signed Message:\n%d" % len(inner) + inner, b"\x19Ethereum Signed Message:\n32" + rand_bytes(rng, 32), b"\x19\x01" + rand_bytes(rng, 64)])
        elif rng.random() < 0.3:
            inp = rng.choice([b"\n", b"hello\n", b"hello\r\n", b"\nhello", b" hello ", b"\x00", b"hello\x00", b"\xef\xbb\xbfhello", inp + b"\n", b"\n" + inp])
    elif cmd in ("sign-transaction", "sign-transaction-sigonly", "hash-transaction"):
        tx = txgen.rand_tx(rng)
        if tx["kind"] == reftx.LEGACY and tx.get("chainId") is None and cmd.startswith("sign"):
            tx["chainId"] = rng.choice([1, 10, 2**64])
        xm["tx"] = txgen.tx_to_meta(tx)
        inp = txgen.render(rng, txgen.tokens_for(rng, tx, spell=("dec", "hex", "int"))).encode()
    elif cmd in ("sign-typeddata", "hash-typeddata", "hash-typeddata-message-hash"):
        while True:
            text, _ = tdgen.rand_document(rng, shape=rng.choice([None, "repeat", "recursive"]), depth=3)
            if td.classify(text)[0] == "accept":
                break
        inp = text.encode()
    elif cmd == "sign-raw":
        d = rand_bytes(rng, 32) if rng.random() < 0.7 else rng.choice([0, 1, N - 1, N, N + 1, 2**256 - 1]).to_bytes(32, "big")
        xm["digest"] = d.hex()
    if inp is not None:
        xm["input"] = inp.hex()
    path, files, stdin_hex = (None, {}, None)
    if inp is not None:
        path, files, stdin_hex = cligen.input_channel(rng, inp, "input.dat")
        xm["channel"] = "stdin" if path == "-" else "file"

    def build(aargv):
        top = cmd.split("-")[0] if cmd not in ("public-key",) else "public-key"
        if cmd in ("address", "export", "public-key"):
            return [cmd] + aargv
        sub = {"sign-message": ["message", path], "hash-message": ["message", path], "hash-data": ["data", path],
               "sign-transaction": ["transaction", path], "sign-transaction-sigonly": ["transaction", path, "--signature-only"],
               "hash-transaction": ["transaction", path], "sign-typeddata": ["typeddata", path], "hash-typeddata": ["typeddata", path],
               "hash-typeddata-message-hash": ["typeddata", path] + [rng.choice(["--message-hash", "-m"])],
               "sign-raw": ["raw", ("0x" if rng.random() < 0.7 else "") + xm.get("digest", "")]}[cmd]
        if top == "sign":
            return ["sign"] + aargv + sub
        return ["hash"] + sub

    return build, files, stdin_hex


def gen(shard, rng, tier):
    if shard["name"] == "big-inputs":
        for size in shard["sizes"]:
            data = (rand_bytes(rng, 65537) * (size // 65537 + 1))[:size]
            hx = data.hex()
            for cmd, argv in (("hash-data", ["hash", "data"]), ("hash-message", ["hash", "message"])):
                steps = [{"cli": {"argv": argv + ["@FILE:big.bin@"], "files": {"big.bin": hx}}},
                         {"cli": {"argv": argv + ["-"], "stdin_hex": hx}},
                         {"cli": {"argv": argv + ["/dev/stdin"], "stdin_hex": hx}}]
                yield {"j": "same", "profile": "release", "x": {"cls": "big-input", "cmd": cmd, "size": size}, "steps": steps}
        return
    for i in range(shard["count"]):
        cmd = CMDS[(i + rng.randrange(len(CMDS))) % len(CMDS)]
        acc = cligen.rand_account(rng)
        if rng.random() < 0.15:
            acc["sel"] = ("index", rng.choice([1, 2, 7, 2**31 - 1]))
        uses_account = not cmd.startswith("hash")
        key = cligen.account_key(acc) if uses_account else None
        sel = acc["sel"]
        selkind = "default" if sel is None else ("index0" if sel == ("index", 0) else sel[0])
        xm = {"cls": cmd, "cmd": cmd, "key": ("%064x" % key) if key else None, "sel": list(sel) if sel else None, "selkind": selkind,
              "password": acc["password"]}
        build, files, stdin_hex = _steps_for(rng, cmd, acc, xm)
        profile = "dev" if rng.random() < 0.15 else "release"
        steps = []
        if uses_account and rng.random() < 0.35:
            for style in ("flags", "env"):
                aargv, env = cligen.account_args(rng, acc, style)
                steps.append({"cli": {"argv": build(aargv), "env": env, "files": files, "stdin_hex": stdin_hex}})
        elif uses_account and rng.random() < 0.25:
            # an explicit flag wins over the environment variable of the same option (also an explicitly empty --password)
            aargv, env = cligen.account_args(rng, acc, "flags")
            if not any(a.startswith("--password") for a in aargv):
                aargv.append("--password=" + acc["password"])
            decoy = cligen.rand_account(rng, simple=True)
            env = {"MNEMONIC": " ".join(decoy["words"]), "PASSWORD": rng.choice(["decoy", "TREZOR", " "])}
            if sel is not None and sel[0] == "index":
                env["ACCOUNT_INDEX"] = str(sel[1] + 1 if sel[1] < 2**31 - 1 else 3)
            elif sel is not None:
                env["HD_PATH"] = "m/44'/60'/0'/0/9"
            xm["precedence"] = True
            steps.append({"cli": {"argv": build(aargv), "env": env, "files": files, "stdin_hex": stdin_hex}})
        else:
            aargv, env = cligen.account_args(rng, acc) if uses_account else ([], {})
            steps.append({"cli": {"argv": build(aargv), "env": env, "files": files, "stdin_hex": stdin_hex}})
        yield {"j": "cmd", "profile": profile, "x": xm, "steps": steps}
        if i % 9 == 0:
            import json as _json
            tx = txgen.rand_tx(rng)
            if tx["kind"] == reftx.LEGACY and tx.get("chainId") is None:
                tx["chainId"] = 1
            acc2 = cligen.rand_account(rng, simple=True)
            key2 = cligen.account_key(acc2)
            signer = eth.address_of_key(key2)
            decoys = rng.sample([("from", _json.dumps(signer)), ("from", '"0x%s"' % rand_bytes(rng, 20).hex()), ("from", '"me"'), ("from", "null"), ("type", '"0x2"'), ("type", "0"),
                                 ("input", '"0x%s"' % rand_bytes(rng, 4).hex()), ("gasLimit", "1"), ("hash", '"0x00"'), ("v", "27"), ("r", '"0x1"'), ("s", '"0x1"'), ("signature", '"0x"'),
                                 ("chainID", "9"), ("maxFeePerBlobGas", "1"), ("nonce ", "1"), ("raw", '"0x"'), ("blockHash", "null"), ("yParity", '"0x1"')], rng.randint(1, 3))
            doc = txgen.render(rng, txgen.tokens_for(rng, tx, spell=("dec", "hex", "int"))).strip()
            extra = ",".join("%s:%s" % (_json.dumps(k), val) for k, val in decoys)
            doc = "{" + (extra + "," + doc[1:-1] if rng.random() < 0.5 else doc[1:-1] + "," + extra) + "}"
            files = {"tx.json": doc.encode().hex()}
            env = {"MNEMONIC": " ".join(acc2["words"])}
            steps = [{"cli": {"argv": ["hash", "transaction", "@FILE:tx.json@"], "files": files}},
                     {"cli": {"argv": ["sign", "transaction", "@FILE:tx.json@"], "env": env, "files": files}}]
            yield {"j": "decoy", "profile": profile, "steps": steps,
                   "x": {"cls": "decoy-keys", "tx": txgen.tx_to_meta(tx), "key": "%064x" % key2, "decoys": [k for k, _ in decoys]}}
        if i % 12 == 0:
            how = rng.choice(["flag+flag", "flag+env", "env+env"])
            words = " ".join(acc["words"])
            argv, env = [rng.choice(["address", "export", "public-key"])], {"MNEMONIC": words}
            idx, pth = str(rng.choice([0, 1, 5])), "m/44'/60'/0'/0/%d" % rng.randrange(5)
            if how == "flag+flag":
                argv += ["--account-index", idx, "--hd-path", pth]
            elif how == "flag+env":
                if rng.random() < 0.5:
                    argv += ["--account-index", idx]
                    env["HD_PATH"] = pth
                else:
                    argv += ["--hd-path", pth]
                    env["ACCOUNT_INDEX"] = idx
            else:
                env["ACCOUNT_INDEX"], env["HD_PATH"] = idx, pth
            yield {"j": "conflict", "profile": profile, "x": {"cls": "conflict", "how": how}, "steps": [{"cli": {"argv": argv, "env": env}}]}
