"""C17 — no input makes the tool panic, abort or hang."""
import importlib

from .. import cligen, mutgen
from ..gen import both, lib_case, rand_bytes
from ..ref import secp
from ..run.core import V, abnormal

ID = "C17"
LEVEL = "exploration"
NEEDS = {"lib": ["dev", "release"], "cli": ["dev", "release"], "interposer": True}
RULE = ("every library request must return ok or err (never an unwinding panic, a crash signal or more than 25 s of CPU on one "
        "request); every process run must exit 0 or with an ordinary non-zero status and a message on stderr (never 101, a signal, an entropy-"
        "request cap hit or a blocked process). Workloads: byte-level (flip/insert/delete/duplicate/truncate/splice/token) and "
        "token-level (boundary numbers, nesting to 128 and beyond, 64 array suffixes, huge strings, word counts 0..40, indices around "
        "2^31/2^32/2^64, scalars around 0 and n, chain ids to 2^256-1, worker counts 0..64, invalid UTF-8 in environment and files) "
        "mutations of valid inputs for every parser and subcommand, in dev (overflow checks, debug assertions) and release builds, "
        "plus a stride sample of every other monitor's workload. Sanitizer passes (ASan, valgrind memcheck, Miri) in the thorough "
        "tier. distinct = distinct requests / command lines; non-trivial = the outcome class was inspected")
OTHERS = ["c01", "c02", "c03", "c04", "c05", "c06", "c07", "c08", "c09", "c10", "c11", "c12", "c13", "c14", "c15", "c16", "c18", "c19", "c20"]
STRIDE = {"c01": 12, "c07": 8, "c08": 3, "c09": 3}
REQUIRED = (["lib-ok", "lib-err", "cli-exit-0", "lib-mnemonic.parse", "lib-path.parse", "lib-sig.parse", "lib-tx.process",
             "lib-typeddata.hash", "lib-key.new", "lib-hdk.derive", "lib-mnemonic.seed", "lib-path.for_index", "lib-key.sign", "lib-msg.hash",
             "lib-mnemonic.random", "cli-new", "cli-sign", "cli-hash", "cli-hex", "cli-address", "cli-export", "cli-public-key", "profile-dev",
             "profile-release", "vanity-terminated"] + ["replayed-" + m for m in OTHERS])


def judge_lib(case, obs):
    v = V()
    for o in obs:
        if "ok" in o:
            v.bucket("lib-ok")
        elif "err" in o:
            v.bucket("lib-err")
        elif o.get("nohook"):
            v.nontrivial = False
    for s in case["steps"]:
        if "lib" in s:
            v.bucket("lib-" + s["lib"]["op"])
    v.bucket("profile-" + case.get("profile", "release"))
    for t in case["x"].get("tags", []):
        v.bucket(t)
    return v


def judge_cli(case, obs):
    v = V()
    for o, s in zip(obs, case["steps"]):
        if abnormal(o):
            continue  # the engine reports it
        if "exit" not in o:
            if "timeout" in o:
                v.nontrivial = False
                v.bucket("watchdog-inconclusive")
            continue
        e = o["exit"]
        # any non-zero status is an ordinary error (the pinned tree uses 2 for usage errors and 255 otherwise); 101 (panic) and 97
        # (request cap) are reported by the engine as abnormal outcomes
        if e != 0 and not o["stderr"].strip():
            v.bad("C17/%s/silent-failure" % case["x"].get("cls", "cli"), "exit %d without a message on stderr (argv %s)" % (e, s.get("cli", {}).get("argv")))
        else:
            v.bucket("cli-exit-%d" % e if e in (0, 2, 255) else "cli-exit-other-nonzero")
        argv = s.get("cli", {}).get("argv") or [""]
        if argv and argv[0] in ("new", "sign", "hash", "hex", "address", "export", "public-key"):
            v.bucket("cli-" + argv[0])
            if argv[0] == "new" and any(str(a).startswith("--vanity-prefix") for a in argv) and e == 0:
                v.bucket("vanity-terminated")
    v.bucket("profile-" + case.get("profile", "release"))
    for t in case["x"].get("tags", []):
        v.bucket(t)
    return v


def judge_any(case, obs):
    """A case borrowed from another monitor: only the outcome class matters here."""
    if any("cli" in s for s in case["steps"]):
        v = judge_cli(case, obs)
    else:
        v = judge_lib(case, obs)
    v.viol = [x for x in v.viol if "silent-failure" not in x[0]]
    return v.bucket("replayed-" + case["x"].get("_from", "?"))


JUDGES = {"lib": judge_lib, "cli": judge_cli, "any": judge_any}


def shards(tier, seed):
    T = tier == "thorough"
    out = [{"name": "lib-mut-%d" % i, "count": 30000 if T else 2500} for i in range(16)]
    out += [{"name": "cli-mut-%d" % i, "count": 1200 if T else 110} for i in range(16)]
    out += [{"name": "lib-boundary"}]
    for m in OTHERS:
        mod = importlib.import_module("monitor.props." + m)
        for s in mod.shards("quick", seed):
            out.append({"name": "replay-%s-%s" % (m, s["name"]), "mod": m, "shard": s})
    return out


def _lib_hostile(rng):
    k = rng.randrange(14)
    if k == 0:
        return {"op": "mnemonic.parse", "phrase": mutgen.hostile_phrase(rng)}
    if k == 1:
        return {"op": "path.parse", "text": mutgen.hostile_path(rng)}
    if k == 2:
        return {"op": "sig.parse", "text": mutgen.hostile_sig(rng)}
    if k in (3, 4):
        return {"op": "tx.process", "json": mutgen.hostile_tx(rng), "secret": "%064x" % rng.choice([1, secp.N - 1, rng.randrange(1, secp.N)])}
    if k in (5, 6, 7):
        return {"op": "typeddata.hash", "json": mutgen.hostile_td(rng)}
    if k == 8:
        return {"op": "key.new", "bytes": rand_bytes(rng, rng.choice([0, 1, 31, 32, 33, 64, 1000])).hex()}
    if k == 9:
        return {"op": "hdk.derive", "seed": rand_bytes(rng, rng.choice([0, 1, 16, 64, 1000])).hex(), "path": mutgen.hostile_path(rng)}
    if k == 10:
        return {"op": "mnemonic.seed", "phrase": mutgen.hostile_phrase(rng) if rng.random() < 0.5 else mutgen.seed_phrase(rng),
                "password": mutgen.text(mutgen.mutate_bytes(rng, "pässwörd \U0001f600".encode())) * rng.choice([1, 1, 100])}
    if k == 11:
        return {"op": "path.for_index", "index": str(rng.choice([0, 1, 2**31 - 1, 2**31, 2**32 - 1, 2**32, 2**63, 2**64 - 1, rng.randrange(2**64)]))}
    if k == 12:
        return {"op": "account.derive", "phrase": mutgen.seed_phrase(rng), "password": "", "path": mutgen.hostile_path(rng)}
    return {"op": "tx.process", "json": mutgen.seed_tx(rng), "with_sig": mutgen.hostile_sig(rng)}


def gen(shard, rng, tier):
    name = shard["name"]
    if name.startswith("lib-mut-"):
        for _ in range(shard["count"]):
            req = _lib_hostile(rng)
            c = lib_case("lib", req, {"cls": req["op"]})
            c["profile"] = rng.choice(["dev", "release"])
            yield c
    elif name == "lib-boundary":
        N = secp.N
        for x in (1, 2, N - 1):
            for d in (0, 1, N - 1, N, N + 1, 2**256 - 1):
                yield from both(lib_case("lib", {"op": "key.sign", "secret": "%064x" % x, "digest": "%064x" % d}, {"cls": "key.sign"}))
        for n in (0, 1, 55, 56, 1000, 10**6):
            yield from both(lib_case("lib", {"op": "msg.hash", "bytes": "00" * n}, {"cls": "msg.hash"}))
        for L in range(0, 41):
            yield from both(lib_case("lib", {"op": "mnemonic.random", "length": L}, {"cls": "mnemonic.random"}))
            yield from both(lib_case("lib", {"op": "mnemonic.random", "length": L, "fail_at": 1}, {"cls": "mnemonic.random"}))
        for L in (2**31, 2**32, 2**63):
            yield from both(lib_case("lib", {"op": "mnemonic.random", "length": L}, {"cls": "mnemonic.random"}))
        # size limits of well-formed documents: 65535..65537 storage keys in one entry, 65536 entries, 300 KiB calldata
        for nk in (65535, 65536, 65537):
            al = '[["0x%s",[%s]]]' % ("11" * 20, ",".join(['"0x%s"' % ("22" * 32)] * nk))
            doc = '{"chainId":1,"nonce":0,"maxPriorityFeePerGas":1,"maxFeePerGas":2,"gas":3,"value":0,"data":"0x","accessList":%s}' % al
            yield lib_case("lib", {"op": "tx.process", "json": doc, "secret": "%064x" % 7}, {"cls": "tx.process"}, "dev" if nk % 2 else "release")
        al = "[" + ",".join(['["0x%s",[]]' % ("33" * 20)] * 65537) + "]"
        doc = '{"chainId":1,"nonce":0,"gasPrice":1,"gas":3,"value":0,"data":"0x%s","accessList":%s}' % ("ab" * 300000, al)
        yield from both(lib_case("lib", {"op": "tx.process", "json": doc, "secret": "%064x" % 7}, {"cls": "tx.process"}))
    elif name.startswith("cli-mut-"):
        for _ in range(shard["count"]):
            acc = cligen.rand_account(rng, simple=True)
            spec = mutgen.hostile_cli(rng, acc["words"])
            argv = spec["argv"]
            if argv and argv[0] == "new" and any(str(a).startswith("--vanity-prefix") for a in argv):
                pre = [a for a in argv if str(a).startswith("--vanity-prefix")][0]
                digits = pre.split("=", 1)[1] if "=" in pre else argv[argv.index(pre) + 1]
                nd = max(0, len(digits.strip()) - 2)
                try:
                    jj = int(argv[argv.index("-j") + 1]) if "-j" in argv else 16
                except ValueError:
                    jj = 16
                from ..run.core import vanity_cap
                spec["ent"] = {"MODE": "pass", "CAP": vanity_cap(min(nd, 3), jj)}
                spec["timeout"] = 300
            yield {"j": "cli", "profile": "dev" if rng.random() < 0.4 else "release", "x": {"cls": "cli-" + (argv[0] if argv else "none")},
                   "steps": [{"cli": spec}]}
    else:
        mod = importlib.import_module("monitor.props." + shard["mod"])
        stride = STRIDE.get(shard["mod"], 2)
        for i, case in enumerate(mod.gen(shard["shard"], rng, "quick")):
            if i % stride:
                continue
            if getattr(mod.JUDGES[case["j"]], "handles_abnormal", False):
                continue  # e.g. C18's stuck-source test, where reaching the request cap is the expected outcome
            c = dict(case)
            x = dict(c.get("x") or {})
            x["_from"] = shard["mod"]
            x["cls"] = "%s:%s" % (shard["mod"], x.get("cls", c["j"]))
            # keep the replay file small: the oracle-side metadata of the borrowed case is not needed here
            c["x"] = {"_from": x["_from"], "cls": x["cls"]}
            c["j"] = "any"
            yield c


# ----------------------------------------------------------------------------- sanitizer / interpreter passes
def _san_lib_requests(rng, n):
    reqs = []
    for _ in range(n):
        reqs.append(_lib_hostile(rng))
    for L in range(0, 41):
        reqs.append({"op": "mnemonic.random", "length": L})
        reqs.append({"op": "mnemonic.random", "length": L, "entropy": "ff" * 32})
    for t in ("uint8[][3]", "bytes33", "Foo" + "[]" * 64):
        reqs.append({"op": "eip712.member_kind", "text": t})
    for nlen in (0, 55, 56, 255, 256, 65535, 65536, 2**32, 2**64 - 1):
        reqs.append({"op": "rlp.len", "n": str(nlen), "offset": 0xc0})
    return reqs


def _miri_batches(rng, tier):
    """(name, extra MIRIFLAGS, requests). Stacked Borrows stays on where no U256 is formatted (ethnum's hex formatter trips it:
    a dependency's aliasing-model issue, see DESIGN.md); every other UB check is always on."""
    sb_off = "-Zmiri-disable-stacked-borrows"
    batches = []
    nparse = 10 if tier == "thorough" else 2
    for i in range(nparse):
        reqs = []
        for _ in range(14):
            reqs.append({"op": "path.parse", "text": mutgen.hostile_path(rng)})
        for _ in range(6):
            reqs.append({"op": "key.new", "bytes": rand_bytes(rng, rng.choice([0, 31, 32, 33])).hex()})
            reqs.append({"op": "path.for_index", "index": str(rng.choice([0, 2**31 - 1, 2**31, 2**32, 2**64 - 1]))})
        batches.append(("parse-sb-%d" % i, "", reqs))
        reqs = []
        for _ in range(14):
            # a signature that parses is printed through ethnum's hex formatter -> Stacked Borrows off for this batch
            reqs.append({"op": "sig.parse", "text": mutgen.hostile_sig(rng)})
        for _ in range(10):
            reqs.append({"op": "tx.process", "json": mutgen.hostile_tx(rng)[:3000]})
        for _ in range(6):
            reqs.append({"op": "typeddata.hash", "json": mutgen.hostile_td(rng)[:4000]})
        for t in ("uint8[][3]", "bytes33[2]", "Foo" + "[]" * 64, "uint256"):
            reqs.append({"op": "eip712.member_kind", "text": t})
        for nlen in (0, 55, 56, 65536, 2**64 - 1):
            reqs.append({"op": "rlp.len", "n": str(nlen), "offset": 0x80})
        reqs.append({"op": "rlp.uint", "value": str(rng.getrandbits(256))})
        reqs.append({"op": "msg.hash", "bytes": rand_bytes(rng, rng.randrange(0, 200)).hex()})
        batches.append(("json-%d" % i, sb_off, reqs))
    nm = 2 if tier == "thorough" else 1
    for i in range(nm):
        reqs = [{"op": "mnemonic.parse", "phrase": mutgen.hostile_phrase(rng)[:400]} for _ in range(20)]
        reqs += [{"op": "mnemonic.parse", "phrase": mutgen.seed_phrase(rng)} for _ in range(5)]
        reqs += [{"op": "mnemonic.random", "length": L} for L in (0, 11, 12, 13, 15, 18, 21, 24, 25)]
        batches.append(("mnemonic-sb-%d" % i, "", reqs))
    if tier == "thorough":
        for i in range(2):
            reqs = [{"op": "hdk.derive", "seed": rand_bytes(rng, 64).hex(), "path": "m/44'/60'/0'/0/%d" % i},
                    {"op": "key.sign", "secret": "%064x" % rng.randrange(1, secp.N), "digest": rand_bytes(rng, 32).hex()},
                    {"op": "tx.process", "json": mutgen.seed_tx(rng), "secret": "%064x" % rng.randrange(1, secp.N)}]
            batches.append(("crypto-%d" % i, sb_off, reqs))
    return batches


def extra_phases(ctx, tier, seed):
    from ..run import core, sanitize
    rng = core.rng_for(seed, ID, "sanitizers")
    summaries, viol = [], []
    evaluations = 0
    # valgrind memcheck on the release CLI as shipped (small sample in quick, 300 runs in thorough)
    n_vg = 300 if tier == "thorough" else 16
    # every generation length once (the FFI write into the entropy buffer), then hostile command lines
    specs = [{"argv": ["new", "-n", str(L)], "env": {}, "files": {}, "stdin_hex": None} for L in (12, 15, 18, 21, 24)]
    while len(specs) < n_vg:
        acc = cligen.rand_account(rng, simple=True)
        s = mutgen.hostile_cli(rng, acc["words"])
        if s["argv"] and s["argv"][0] == "new" and any(str(a).startswith("--vanity") for a in s["argv"]):
            continue  # searches are too slow under valgrind; they are covered by ASan below
        specs.append(s)
    summ, v = sanitize.valgrind_cli(specs, ctx.bins["cli-release"], ctx.run_dir)
    summaries.append(summ)
    viol += v
    evaluations += summ["executions"]
    if tier == "thorough":
        summ, v = sanitize.asan_lib(_san_lib_requests(rng, 6000), ctx.run_dir)
        summaries.append(summ)
        viol += v
        evaluations += summ["executions"]
        specs = []
        for _ in range(600):
            acc = cligen.rand_account(rng, simple=True)
            s = mutgen.hostile_cli(rng, acc["words"])
            if s["argv"] and s["argv"][0] == "new" and any(str(a).startswith("--vanity-prefix") for a in s["argv"]):
                s["ent"] = {"MODE": "pass", "CAP": core.vanity_cap(2, 16)}
                s["timeout"] = 600
            specs.append(s)
        summ, v = sanitize.asan_cli(specs, ctx.run_dir, ctx.bins.get("interposer"))
        summaries.append(summ)
        viol += v
        evaluations += summ["executions"]
        summ, v, obs = sanitize.miri(_miri_batches(rng, tier), ctx.run_dir)
        summaries.append(summ)
        viol += v
        evaluations += summ["executions"]
        # coverage-guided workload: libFuzzer + ASan over every parser, seeded with the generators' corpus
        seeds = []
        for _ in range(150):
            seeds += [(0, mutgen.seed_phrase(rng).encode()), (0, mutgen.hostile_phrase(rng).encode()[:400]), (1, mutgen.seed_path(rng).encode()),
                      (1, mutgen.hostile_path(rng).encode()[:200]), (2, mutgen.seed_sig(rng).encode()), (2, mutgen.hostile_sig(rng).encode()[:200]),
                      (3, mutgen.seed_tx(rng).encode()), (4, mutgen.hostile_tx(rng).encode()[:3000]), (5, mutgen.seed_td(rng).encode()[:6000]),
                      (6, mutgen.hostile_td(rng).encode()[:6000]), (7, rand_bytes(rng, 32))]
        summ, v = sanitize.fuzz_parsers(seeds, ctx.run_dir, 300)
        summaries.append(summ)
        viol += v
        evaluations += summ["executions"]
        for name, pairs in obs.items():
            for req, o in pairs:
                if "panic" in o:
                    viol.append({"sig": "C17/miri:%s/panic" % req.get("op"), "msg": "panic under Miri: %s" % str(o["panic"])[:200],
                                 "case": {"j": "lib", "profile": "dev", "steps": [{"lib": req}], "x": {"cls": req.get("op")}}, "obs": [o]})
    buckets = {}
    for s in summaries:
        buckets["sanitizer-executions:" + s["tool"].split(",")[0].split("(")[0].strip()] = s["executions"]
    return {"sanitizers": summaries, "evaluations": evaluations, "buckets": buckets}, viol
