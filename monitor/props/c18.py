"""C18 — vanity search returns a phrase whose account really has the prefix."""
from ..ref import bip39, eth
from ..run.core import V, abnormal

ID = "C18"
LEVEL = "exploration"
NEEDS = {"cli": ["dev", "release"], "interposer": True}
RULE = ("`hdwallet new --vanity-prefix P [-j N] [-n L] [--vanity-password/--vanity-account-index/--vanity-hd-path]` process runs under the "
        "logging entropy interposer, with and without per-thread delay scripts (getentropy is the one point every worker passes on "
        "every attempt, so delays there change which worker wins without creating impossible interleavings); the reference pipeline "
        "computes the address of the selected account of the printed phrase, which must start with P's digits case-insensitively "
        "(odd final digit compared as a nibble); the phrase's entropy must be the last buffer served to one thread (identifies the "
        "winning worker and its attempt number); all 16 single digits, letters in both cases, 2-digit (and in thorough 3-digit) "
        "prefixes, -j 0/1/2/16; termination decided by an entropy-request cap with P(miss) < 1e-20. distinct = distinct command "
        "lines+scripts; non-trivial = address prefix compared")
REQUIRED = (["digit-%s" % d for d in "0123456789abcdef"] + ["upper-%s" % d for d in "ABCDEF"] + ["prefix-2-digits", "prefix-mixed-case", "j0", "j1",
            "j2", "j16", "selector-default", "selector-account-index", "selector-hd-path", "vanity-password", "with-delay-script",
            "non-hex-refused", "odd-digit-count", "even-digit-count", "L12", "L24", "winner-is-a-worker-thread", "match-after>=2-attempts", "stuck-source-keeps-searching"])
CAPS = {0: 200, 1: 800, 2: 12000, 3: 190000}


def aggregate_requirements(buckets, tier):
    winners = [b for b in buckets if b.startswith("winner-j16-ordinal-")]
    need = 3
    if len(winners) < need:
        return ["at least %d distinct winning worker ordinals at -j 16 (saw %d)" % (need, len(winners))]
    return []


def judge(case, obs):
    o = obs[0]
    xm = case["x"]
    v = V()
    if abnormal(o) or "exit" not in o:
        return v
    P = xm["prefix"]
    digits = P[2:]
    if xm.get("nonhex"):
        if o["exit"] == 0 or o["stdout"] != "":
            return v.bad("C18/non-hex-prefix/accepted", "--vanity-prefix %r: exit %d, stdout %r" % (P, o["exit"], o["stdout"][:60]))
        return v.bucket("non-hex-refused")
    if o["exit"] != 0:
        return v.bad("C18/%s/failed" % xm["cls"], "vanity search for %s failed: %s" % (P, o["stderr"][-150:]))
    out = o["stdout"].rstrip("\r\n")
    if "\n" in out or not out:
        return v.bad("C18/%s/output-shape" % xm["cls"], "stdout is not one line: %r" % o["stdout"][:100])
    words = out.split()
    try:
        ent = bip39.decode_words(words)
    except ValueError as e:
        return v.bad("C18/%s/invalid-phrase" % xm["cls"], "printed phrase is invalid (%s)" % e)
    L = xm["L"]
    if len(words) != L:
        return v.bad("C18/%s/word-count" % xm["cls"], "%d words for -n %d" % (len(words), L))
    sel = xm["sel"]
    comps = eth.default_path(0) if sel is None else eth.default_path(sel[1]) if sel[0] == "index" else eth.parse_path_strict(sel[1])
    key = eth.bip32_derive(bip39.seed(words, xm["password"]), comps)
    addr = eth.address_of_key(key)[2:].lower()
    if not addr.startswith(digits.lower()):
        return v.bad("C18/%s/address-lacks-prefix" % xm["cls"],
                     "printed phrase's account %s is 0x%s, which does not start with %s" % (eth.format_path(comps), addr, P))
    # which thread was served this entropy (coverage classes only: where the entropy comes from is C12's subject, and a search
    # that fetches ahead or in pieces still holds this property)
    E = [r for r in o.get("entropy", []) if r["tag"] == "E" and r["ret"] == 0]
    if E:
        from ..run.core import attribute_entropy
        w = attribute_entropy(ent.hex(), E)
        if w is None:
            v.bucket("winner-not-attributable-to-a-thread")
        else:
            if w["last"] != w["count"] - 1:
                v.bucket("winner-requested-more-after-winning")
            attempts = w["last"] + 1
            j = xm["j"]
            if w["thread"] != 0:
                v.bucket("winner-is-a-worker-thread")
            if j == 16:
                v.bucket("winner-j16-ordinal-%d" % w["thread"])
            if j == 64:
                v.bucket("j64-winner-ordinal>16" if w["thread"] > 16 else "j64-winner-ordinal<=16")
            if attempts >= 2:
                v.bucket("match-after>=2-attempts")
            v.bucket("attempts-to-win-%s" % ("1" if attempts == 1 else "2-9" if attempts < 10 else "10-99" if attempts < 100 else "100+"))
    else:
        v.bucket("no-entropy-call-seen-by-interposer")
    # coverage classes
    if len(digits) == 1:
        v.bucket(("upper-%s" if digits in "ABCDEF" else "digit-%s") % digits)
    else:
        v.bucket("prefix-%d-digits" % len(digits))
        if digits != digits.lower() and digits != digits.upper():
            v.bucket("prefix-mixed-case")
    v.bucket("odd-digit-count" if len(digits) % 2 else "even-digit-count")
    v.bucket("j%d" % xm["j"])
    if E and len({r["thread"] for r in E}) > 3:
        v.bucket("concurrent-threads-requesting-entropy")
    v.bucket("selector-default" if sel is None else "selector-account-index" if sel[0] == "index" else "selector-hd-path")
    if xm["password"]:
        v.bucket("vanity-password")
    if xm.get("delay"):
        v.bucket("with-delay-script")
    v.bucket("L%d" % L)
    return v


def judge_stuck(case, obs):
    """The entropy source is scripted to return the same bytes for ever, and the phrase of those bytes does not have the prefix.
    A correct search can only keep searching (it is stopped by the request cap, which is the expected, *held* outcome here);
    giving up and printing a phrase anyway is a violation."""
    o = obs[0]
    xm = case["x"]
    v = V()
    if "signal" in o or "hang" in o or o.get("exit") == 101:
        return v.bad("C18/stuck-source/%s" % ("panic" if o.get("exit") == 101 else "abnormal"), "vanity search ended abnormally: %s" % (o.get("stderr", "")[-150:]))
    if "exit" not in o:
        v.nontrivial = False
        return v.bucket("watchdog-inconclusive")
    if o["exit"] == 97:
        n = len([r for r in o.get("entropy", []) if r["tag"] == "E"])
        return v.bucket("stuck-source-keeps-searching").bucket("stuck-source-attempts>=%d" % (10000 if n >= 10000 else 1000 if n >= 1000 else 0))
    if o["exit"] == 0:
        words = o["stdout"].strip().split(" ")
        try:
            bip39.decode_words(words)
            addr = eth.address_of_key(eth.bip32_derive(bip39.seed(words, ""), eth.default_path(0)))[2:].lower()
        except ValueError:
            addr = "<invalid phrase>"
        if not addr.startswith(xm["prefix"][2:].lower()):
            return v.bad("C18/stuck-source/gave-up-with-non-matching-phrase",
                         "after %d identical candidates the search printed a phrase whose address 0x%s lacks the prefix %s" % (
                             len(o.get("entropy", [])), addr, xm["prefix"]))
        return v.bucket("stuck-source-matched")
    # an ordinary error ("gave up after N attempts") would be conforming
    return v.bucket("stuck-source-error-exit")


judge_stuck.handles_abnormal = True
JUDGES = {"vanity": judge, "stuck": judge_stuck}


def shards(tier, seed):
    T = tier == "thorough"
    return ([{"name": "singles-%d" % i, "part": i, "reps": 8 if T else 2, "exhaustive": "all 16 single digits and the 6 upper-case letters"} for i in range(4)]
            + [{"name": "multi-%d" % i, "count": 80 if T else 8, "three": T} for i in range(8)]
            + [{"name": "winners-%d" % i, "count": 500 if T else 100, "j": (16, 64)[i % 2]} for i in range(8)]
            + [{"name": "nonhex"}, {"name": "stuck-0", "j": 1, "cap": 40000 if T else 10000}, {"name": "stuck-1", "j": 0, "cap": 40000 if T else 10000},
               {"name": "stuck-2", "j": 16, "cap": 300000 if T else 60000}])


def _case(rng, prefix, j, L=12, sel=None, password="", delay=None, profile="release", cls="search"):
    argv = ["new", "--vanity-prefix", prefix] if rng.random() < 0.5 else ["new", "--vanity-prefix=" + prefix]
    argv += ["-j", str(j)] if rng.random() < 0.5 else ["--vanity-threads=%d" % j]
    if L != 12 or rng.random() < 0.3:
        argv += ["-n", str(L)]
    if sel is not None:
        argv += ["--vanity-account-index", str(sel[1])] if sel[0] == "index" else ["--vanity-hd-path", sel[1]]
    if password:
        argv += ["--vanity-password", password]
    nd = len(prefix) - 2
    from ..run.core import vanity_cap
    ent = {"MODE": "pass", "CAP": vanity_cap(nd, j)}
    if delay:
        ent["DELAY"] = delay
    return {"j": "vanity", "profile": profile,
            "x": {"cls": cls, "prefix": prefix, "j": j, "L": L, "sel": list(sel) if sel else None, "password": password, "delay": delay},
            "steps": [{"cli": {"argv": argv, "ent": ent, "timeout": 600}}]}


def _rand_sel(rng):
    r = rng.random()
    if r < 0.4:
        return None
    if r < 0.7:
        return ("index", rng.choice([0, 1, 2, 7, 2**31 - 1, rng.randrange(1000)]))
    return ("path", eth.format_path([(rng.choice([0, 1, 44, 60, rng.randrange(2**31)]), rng.random() < 0.5) for _ in range(rng.randint(1, 6))]))


def _rand_delay(rng, j):
    if rng.random() < 0.4:
        return None
    slow = rng.sample(range(1, max(2, j + 1)), min(j, rng.randint(1, max(1, j - 1)))) if j else []
    parts = ["%d:%d" % (o, rng.choice([200, 1000, 5000, 20000])) for o in slow]
    if rng.random() < 0.3:
        parts.append("*:%d" % rng.choice([50, 300]))
    return ",".join(parts) or None


def gen(shard, rng, tier):
    name = shard["name"]
    if name.startswith("singles-"):
        digs = list("0123456789abcdefABCDEF")
        for _ in range(shard["reps"]):
            for d in digs[shard["part"]::4]:
                for j in (0, 1, 2, 16):
                    yield _case(rng, "0x" + d, j, L=rng.choice(bip39.LEGAL_COUNTS), sel=_rand_sel(rng),
                                password=rng.choice(["", "", "pw", "é"]), delay=_rand_delay(rng, j),
                                profile="dev" if (j == 16 and rng.random() < 0.5) else "release", cls="single-digit")
    elif name.startswith("multi-"):
        for _ in range(shard["count"]):
            nd = 3 if (shard["three"] and rng.random() < 0.3) else 2
            digits = "".join(rng.choice("0123456789abcdefABCDEF") for _ in range(nd))
            j = rng.choice([0, 1, 2, 16, 16])
            yield _case(rng, "0x" + digits, j, L=rng.choice(bip39.LEGAL_COUNTS), sel=_rand_sel(rng), password=rng.choice(["", "hunter2"]),
                        delay=_rand_delay(rng, j), cls="%d-digits" % nd)
    elif name.startswith("winners-"):
        # many short searches at -j 16 with different delay scripts: the winner must vary
        for _ in range(shard["count"]):
            d = rng.choice("0123456789abcdefABCDEF") + rng.choice(["", rng.choice("0123456789abcdef")])
            j = shard.get("j", 16)
            yield _case(rng, "0x" + d, j, delay=_rand_delay(rng, j) if rng.random() < 0.6 else None, cls="winners")
    elif name.startswith("stuck-"):
        # all-zero entropy -> "abandon ... about" -> m/44'/60'/0'/0/0 = 0x9858EfFD232B4033E47d90003D41EC34EcaEda94
        for prefix in ("0x0", "0xabc"):
            yield {"j": "stuck", "profile": "release", "x": {"cls": "stuck-source", "prefix": prefix, "j": shard["j"]},
                   "steps": [{"cli": {"argv": ["new", "--vanity-prefix", prefix, "-j", str(shard["j"])], "ent": {"MODE": "zero", "CAP": shard["cap"], "CAP_SLACK": 0}, "timeout": 900}}]}
            break
    else:
        for p in ("0xg", "0xG1", "0x1g", "0x-1", "0x 1", "0xx", "0x0x1", "0x1.", "0xé", "0x1١", "0x1_", "0x+1", "0xAG", "0xabcdefg"):
            for prof in ("release", "dev"):
                c = _case(rng, p, 1, profile=prof, cls="non-hex")
                c["x"]["nonhex"] = True
                c["steps"][0]["cli"]["ent"]["CAP"] = 2000
                yield c


def extra_phases(ctx, tier, seed):
    """Thorough tier: the worker threads under ThreadSanitizer (nightly, -Zbuild-std): 20 searches at -j 16."""
    if tier != "thorough":
        return {}, []
    from ..run import core, sanitize
    rng = core.rng_for(seed, ID, "tsan")
    specs = []
    for i in range(20):
        d = rng.choice("0123456789abcdefABCDEF")
        specs.append({"argv": ["new", "--vanity-prefix", "0x" + d, "-j", "16"], "ent": {"MODE": "pass", "CAP": core.vanity_cap(1, 16), "DELAY": _rand_delay(rng, 16)}})
    summ, viol = sanitize.tsan_vanity(specs, ctx.run_dir, ctx.bins.get("interposer"))
    return {"sanitizers": [summ], "evaluations": summ["executions"], "buckets": {"sanitizer-executions:ThreadSanitizer": summ["executions"]}}, viol
