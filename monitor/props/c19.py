"""C19 — hex encode and decode are inverse; decoding is lenient only about layout."""
from .. import cligen
from ..gen import rand_bytes
from ..ref import bip39
from ..run.core import V, abnormal

ID = "C19"
LEVEL = "exploration"
NEEDS = {"cli": ["dev", "release"]}
RULE = ("process runs of `hex encode` / `hex decode` (stdin and file): encode output must be exactly 0x + lower-case hex + newline; a "
        "two-step history encode -> decode must return the original bytes; decode of every hostile layout of the hex form (ASCII "
        "whitespace anywhere incl. inside the prefix and between the two digits of a byte, per-digit case, optional 0x) must return "
        "the same bytes; odd digit counts and non-hex characters must fail with empty stdout; every length 0..512 then to 4096, all "
        "256 byte values. distinct = distinct (input, channel); non-trivial = stdout bytes compared")
REQUIRED = ["encode-exact", "roundtrip", "decode-layout-whitespace", "decode-layout-uppercase", "decode-layout-mixedcase", "decode-no-prefix",
            "decode-whitespace-inside-prefix", "decode-whitespace-inside-byte", "decode-layout-unicode-whitespace", "reject-odd", "reject-non-hex", "reject-second-prefix",
            "reject-invalid-utf8", "len-0", "len-1", "len-512", "len-4096", "all-byte-values", "channel-file", "channel-stdin", "reject-empty-stdout"]


def judge_encode(case, obs):
    o = obs[0]
    v = V()
    if abnormal(o) or "exit" not in o:
        return v
    b = bytes.fromhex(case["x"]["data"])
    if o["exit"] != 0:
        return v.bad("C19/encode/failed", "hex encode exit %d: %s" % (o["exit"], o["stderr"][-120:]))
    want = ("0x" + b.hex()).encode()
    if o["stdout_hex"] is None or bytes.fromhex(o["stdout_hex"]).rstrip(b"\r\n") != want:
        return v.bad("C19/encode/output", "hex encode of %d bytes printed %r" % (len(b), o["stdout"][:80]))
    v.bucket("encode-exact")
    if len(obs) > 1:
        d = obs[1]
        if abnormal(d) or "exit" not in d:
            return v
        if d["exit"] != 0 or d["stdout_hex"] is None or bytes.fromhex(d["stdout_hex"]) != b:
            return v.bad("C19/roundtrip/differs", "decode(encode(b)) != b for %d bytes (exit %d)" % (len(b), d["exit"]))
        v.bucket("roundtrip")
    _lenb(v, b, case)
    return v


def _lenb(v, b, case):
    n = len(b)
    if n in (0, 1, 512, 4096):
        v.bucket("len-%d" % n)
    if case["x"].get("allbytes"):
        v.bucket("all-byte-values")
    v.bucket("channel-" + case["x"]["channel"])


def judge_decode(case, obs):
    o = obs[0]
    xm = case["x"]
    v = V()
    if abnormal(o) or "exit" not in o:
        return v
    if xm["expect"] == "bytes":
        b = bytes.fromhex(xm["data"])
        if o["exit"] != 0 or o["stdout_hex"] is None or bytes.fromhex(o["stdout_hex"]) != b:
            return v.bad("C19/decode-%s/differs" % xm["cls"], "decode of a %s layout of %d bytes: exit %d, %d bytes out (%s)" % (
                xm["cls"], len(b), o["exit"], o["stdout_len"], o["stderr"][-100:]))
        for t in xm["tags"]:
            v.bucket(t)
        _lenb(v, b, case)
    elif xm["expect"] == "reject":
        if o["exit"] == 0:
            return v.bad("C19/%s/accepted" % xm["cls"], "malformed hex (%s) decoded with exit 0 to %d bytes" % (xm["cls"], o["stdout_len"]))
        if o["stdout_len"] != 0:
            return v.bad("C19/%s/partial-output" % xm["cls"], "malformed hex (%s) rejected but %d bytes were written to stdout" % (xm["cls"], o["stdout_len"]))
        v.bucket("reject-" + xm["cls"])
        v.bucket("reject-empty-stdout")
    else:
        b = bytes.fromhex(xm["data"])
        if o["exit"] == 0 and (o["stdout_hex"] is None or bytes.fromhex(o["stdout_hex"]) != b):
            return v.bad("C19/unspecified-%s/unnatural" % xm["cls"], "unspecified layout accepted with different bytes")
        v.nontrivial = False
        v.bucket("either-" + xm["cls"])
    return v


JUDGES = {"encode": judge_encode, "decode": judge_decode}


def shards(tier, seed):
    T = tier == "thorough"
    return ([{"name": "lengths-%d" % i, "part": i, "exhaustive": "every length 0..512, then to 4096 in steps of 128"} for i in range(8)]
            + [{"name": "layouts-%d" % i, "count": 8000 if T else 200} for i in range(8)]
            + [{"name": "malformed-%d" % i, "count": 6000 if T else 150} for i in range(4)])


def _cli(rng, op, data, profile=None):
    path, files, stdin_hex = cligen.input_channel(rng, data, "in.dat")
    argv = ["hex", op] + ([] if (path == "-" and rng.random() < 0.5) else [path])
    return {"argv": argv, "files": files, "stdin_hex": stdin_hex}, ("stdin" if path == "-" else "file")


def layout(rng, b, tags):
    h = b.hex()
    m = rng.randrange(3)
    if m == 1 and any(c in "abcdef" for c in h):
        h = h.upper()
        tags.append("decode-layout-uppercase")
    elif m == 2 and any(c in "abcdef" for c in h):
        h = "".join(c.upper() if rng.random() < 0.5 else c for c in h)
        tags.append("decode-layout-mixedcase")
    prefix = "0x"
    if rng.random() < 0.3:
        prefix = ""
        tags.append("decode-no-prefix")
    elif rng.random() < 0.3:
        prefix = "0" + rng.choice(bip39.ASCII_WS) + "x"
        tags.append("decode-whitespace-inside-prefix")
    out = [rng.choice(["", "", " ", "\n", "\t\n "]), prefix]
    ws_used = inside = False
    for i, c in enumerate(h):
        if rng.random() < 0.15:
            out.append("".join(rng.choice(bip39.ASCII_WS) for _ in range(rng.randint(1, 3))))
            ws_used = True
            if i % 2 == 1:
                inside = True
        out.append(c)
    out.append(rng.choice(["", "\n", "\r\n", " ", "\n\n"]))
    if ws_used or out[0] or out[-1]:
        tags.append("decode-layout-whitespace")
    if inside:
        tags.append("decode-whitespace-inside-byte")
    return "".join(out)


def gen(shard, rng, tier):
    name = shard["name"]
    if name.startswith("lengths-"):
        lens = list(range(0, 513)) + list(range(640, 4097, 128))
        for n in lens[shard["part"]::8]:
            b = rand_bytes(rng, n)
            spec, ch = _cli(rng, "encode", b)
            steps = [{"cli": spec}, {"cli": {"argv": ["hex", "decode"], "stdin_from": 0}}]
            yield {"j": "encode", "profile": "dev" if n % 5 == 0 else "release", "x": {"cls": "length", "data": b.hex(), "channel": ch}, "steps": steps}
        if shard["part"] == 1:
            for n in (4095, 4097, 8191, 8192, 8193, 16383, 16384, 16385, 32767, 32768, 32769, 65535, 65536, 65537, 100000, 131071, 131072, 131073, 1 << 20):
                b = rand_bytes(rng, n)
                spec, ch = _cli(rng, "encode", b)
                yield {"j": "encode", "profile": "release", "x": {"cls": "big", "data": b.hex(), "channel": ch}, "steps": [{"cli": spec}]}
        if shard["part"] == 2:
            # bytes that text-oriented input handling tends to eat: trailing / leading newlines, CR LF, NUL, BOM, only white space
            for b in (b"\n", b"\r\n", b"abc\n", b"abc\r\n", b"abc\n\n", b"\nabc", b" abc ", b"\x00", b"abc\x00", b"\xef\xbb\xbfabc", b" ", b"\t\n", b"0x41",
                      b"\x1a", b"\x04", b"\xff\n", rand_bytes(rng, 100) + b"\n", rand_bytes(rng, 4096) + b"\n"):
                for chan in ("stdin", "stdin-default", "file"):
                    if chan == "file":
                        spec, ch = {"argv": ["hex", "encode", "@FILE:in.dat@"], "files": {"in.dat": b.hex()}, "stdin_hex": None}, "file"
                    else:
                        spec, ch = {"argv": ["hex", "encode"] + (["-"] if chan == "stdin" else []), "files": {}, "stdin_hex": b.hex()}, "stdin"
                    for p in ("release", "dev"):
                        yield {"j": "encode", "profile": p, "x": {"cls": "edge-bytes", "data": b.hex(), "channel": ch},
                               "steps": [{"cli": spec}, {"cli": {"argv": ["hex", "decode"], "stdin_from": 0}}]}
        if shard["part"] == 0:
            b = bytes(range(256))
            for p in ("dev", "release"):
                spec, ch = _cli(rng, "encode", b)
                yield {"j": "encode", "profile": p, "x": {"cls": "allbytes", "data": b.hex(), "channel": ch, "allbytes": True},
                       "steps": [{"cli": spec}, {"cli": {"argv": ["hex", "decode", "-"], "stdin_from": 0}}]}
            for v in range(256):
                spec, ch = _cli(rng, "encode", bytes([v]))
                yield {"j": "encode", "profile": "release", "x": {"cls": "byte", "data": "%02x" % v, "channel": ch}, "steps": [{"cli": spec}]}
    elif name.startswith("layouts-"):
        for _ in range(shard["count"]):
            n = rng.choice([0, 1, 2, 3, 32, 65, 512, 4096, rng.randrange(0, 200)])
            b = rand_bytes(rng, n) if rng.random() < 0.9 else bytes(range(256))[:n or 256]
            tags = []
            text = layout(rng, b, tags)
            spec, ch = _cli(rng, "decode", text.encode())
            x = {"cls": "layout", "expect": "bytes", "data": b.hex(), "tags": tags, "channel": ch, "allbytes": b == bytes(range(256))}
            yield {"j": "decode", "profile": "dev" if rng.random() < 0.2 else "release", "x": x, "steps": [{"cli": spec}]}
            if rng.random() < 0.15 and n:
                # "ignores whitespace anywhere": the Unicode White_Space characters too
                h = b.hex()
                ws = rng.choice(bip39.UNICODE_WS[6:])
                i = rng.randrange(len(h) + 1)
                text2 = rng.choice(["0x" + h[:i] + ws + h[i:], ws + "0x" + h, "0x" + h + ws, "0" + ws + "x" + h])
                spec, ch = _cli(rng, "decode", text2.encode())
                yield {"j": "decode", "profile": "release", "x": {"cls": "unicode-ws", "expect": "bytes", "data": b.hex(), "channel": ch,
                                                                  "tags": ["decode-layout-unicode-whitespace"]}, "steps": [{"cli": spec}]}
            if rng.random() < 0.05 and n:
                # unspecified: 0X prefix
                spec, ch = _cli(rng, "decode", ("0X" + b.hex()).encode())
                yield {"j": "decode", "profile": "release", "x": {"cls": "0X-prefix", "expect": "either", "data": b.hex(), "channel": ch},
                       "steps": [{"cli": spec}]}
    else:
        # multi-byte characters at the first byte offsets of un-prefixed and prefixed text (where a parser that slices off a prefix
        # by byte offset would cut a character in half): refused like any other non-hex character
        for ch_ in ("\u00e9", "\u20ac", "\U0001f600", "\u0301", "\uff11"):
            for text in ([lead + ch_ + tail for lead in ("", "0", "1", "a", "x", "0x", "0X", "00", "0x0", "ab") for tail in ("", "0", "00", "ab12")]):
                spec, ch = _cli(rng, "decode", text.encode())
                yield {"j": "decode", "profile": rng.choice(["dev", "release"]), "x": {"cls": "non-hex", "expect": "reject", "channel": ch}, "steps": [{"cli": spec}]}
        for _ in range(shard["count"]):
            n = rng.choice([1, 2, 5, 32, 200])
            h = rand_bytes(rng, n).hex()
            k = rng.randrange(7)
            if k == 0:
                i = rng.randrange(len(h) + 1)
                text, cls = "0x" + h[:i] + rng.choice("0123456789abcdefABCDEF") + h[i:], "odd"
            elif k == 1:
                i = rng.randrange(len(h))
                text, cls = rng.choice(["0x", ""]) + h[:i] + h[i + 1:], "odd"
            elif k == 2:
                i = rng.randrange(len(h))
                text, cls = "0x" + h[:i] + rng.choice(["g", "x", "-", "\x00", "z", "_", ",", "+", "G", "O"]) + h[i + 1:], "non-hex"
            elif k == 3:
                i = rng.randrange(len(h) + 1)
                text, cls = "0x" + h[:i] + rng.choice(["é", "€", "\U0001f600", "１２"]) + h[i:], "non-hex"
            elif k == 4:
                text, cls = rng.choice(["0x0x" + h, "0x" + h + "0x", "0x" + h[:2] + "0x" + h[2:], "x" + h, "00x" + h]), "second-prefix"
            elif k == 5:
                data = ("0x" + h).encode()
                i = rng.randrange(len(data) + 1)
                bad = data[:i] + rng.choice([b"\xff", b"\xc3", b"\xed\xa0\x80", b"\x80"]) + data[i:]
                spec, ch = _cli(rng, "decode", bad)
                yield {"j": "decode", "profile": "release", "x": {"cls": "invalid-utf8", "expect": "reject", "channel": ch}, "steps": [{"cli": spec}]}
                continue
            else:
                # a long valid prefix followed by one bad character at the very end: no partial output allowed
                big = rand_bytes(rng, rng.choice([1000, 5000, 70000])).hex()
                text, cls = "0x" + big + rng.choice(["g", "0", "0g"]), "non-hex"
                if text.endswith("00") or (text[-1] == "0" and not text.endswith("g")):
                    cls = "odd"
            spec, ch = _cli(rng, "decode", text.encode())
            yield {"j": "decode", "profile": "dev" if rng.random() < 0.2 else "release", "x": {"cls": cls, "expect": "reject", "channel": ch},
                   "steps": [{"cli": spec}]}
