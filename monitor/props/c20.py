"""C20 — only well-formed EIP-712 domain types are accepted."""
import itertools
import json

from .. import tdcli, tdgen
from ..gen import both, lib_case, VOCAB_FIELD_NAMES
from ..ref import eip712, td
from ..run.core import V

ID = "C20"
LEVEL = "exploration"
NEEDS = {"lib": ["dev", "release"], "cli": ["dev", "release"]}
RULE = ("typeddata.hash(json) events over domain types: all 326 duplicate-free orderings of subsets of the five standard fields "
        "(31 must-accept, 295 must-reject), all sequences of length <= 5 with repetition, foreign names inserted at every position, "
        "every field with type substitutions, missing EIP712Domain, domain values with missing / extra members; the domain *value* "
        "always conforms to the declared members so that only the domain-type rule decides; accepted documents must hash to the "
        "reference digests; a sample of the same documents through `hash typeddata` (with and without --message-hash / -m) and `sign typeddata`. distinct = distinct documents; non-trivial = accept/reject decision compared")
REQUIRED = (["accept-%d-fields" % k for k in range(1, 6)] + ["reject-empty", "reject-reordered", "reject-repeated", "reject-foreign-name",
            "reject-wrong-type", "reject-no-domain-type", "reject-domain-value-missing-member", "reject-domain-value-extra-member",
            "accepted-digests-equal", "cli-reject-all-commands", "cli-accept-hashes-equal-and-signature-recovers"])
F = eip712.DOMAIN_FIELDS
FOREIGN = [("description", "string"), ("Name", "string"), ("NAME", "string"), ("name ", "string"), (" name", "string"), ("chainid", "uint256"),
           ("chainID", "uint256"), ("ChainId", "uint256"), ("chain_id", "uint256"), ("", "string"), ("verifyingcontract", "address"),
           ("VerifyingContract", "address"), ("verifying_contract", "address"), ("salt2", "bytes32"), ("Salt", "bytes32"), ("SALT", "bytes32"),
           ("names", "string"), ("Version", "string"), ("VERSION", "string"), ("version\u200b", "string"), ("x", "uint8"), ("n\u0430me", "string")]
FOREIGN = FOREIGN + [(w, t) for w in VOCAB_FIELD_NAMES if w not in dict(F) for t in ("string", "bytes32")][::2]
SUBST = ["bytes", "bytes31", "bytes32", "uint", "uint255", "uint256", "uint8", "int256", "string", "string[]", "address", "address[1]", "bool",
         "Foo", "bytes32[]", "uint256[]", "String", "bytes1", "int", "byte", "address payable", "uint 256", "UINT256", "Uint256", "bytes32 ", "str", "bytes0", "bytes33",
         "uint0", "uint264", "uint256[1]", "contract", "hash", "fixed", "ufixed128x18", "function", "tuple", "number", "integer"]


def judge(case, obs):
    o = obs[0]
    v = V()
    if "ok" not in o and "err" not in o:
        return v
    text = case["steps"][0]["lib"]["json"]
    xm = case["x"]
    cls, out = td.classify(text)
    if cls == "reject":
        if "ok" in o:
            return v.bad("C20/%s/accepted" % xm["cls"], "document with %s accepted (reference: %s)" % (xm["shown"][:200], out))
        return v.bucket("reject-" + xm["cls"])
    if cls == "accept":
        if "ok" not in o:
            return v.bad("C20/%s/rejected" % xm["cls"], "well-formed domain type %s rejected: %s" % (xm["shown"][:200], str(o.get("err"))[:150]))
        if any(o["ok"][n] != w.hex() for n, w in zip(("digest", "domain_separator", "message_hash"), out)):
            return v.bad("C20/%s/wrong-digest" % xm["cls"], "accepted domain %s hashes differently from the reference" % xm["shown"][:200])
        v.bucket("accepted-digests-equal")
        types, _, _, _ = td.parse_document(text)
        return v.bucket("accept-%d-fields" % len(types["EIP712Domain"]))
    v.nontrivial = False
    return v.bucket("unspecified")


JUDGES = {"doc": judge, "cli-doc": tdcli.make_td_judge(ID)}


def shards(tier, seed):
    T = tier == "thorough"
    return [{"name": "orderings", "exhaustive": "all 326 duplicate-free orderings of subsets of the 5 standard domain fields", "reps": 40 if T else 2},
            {"name": "repetition-0", "part": 0, "parts": 4, "exhaustive": "all 3906 sequences of length <= 5 over the 5 standard fields"},
            {"name": "repetition-1", "part": 1, "parts": 4}, {"name": "repetition-2", "part": 2, "parts": 4},
            {"name": "repetition-3", "part": 3, "parts": 4},
            {"name": "foreign", "reps": 12 if T else 1, "exhaustive": "a foreign member inserted at every position of every legal domain type"},
            {"name": "substitutions", "reps": 12 if T else 1, "exhaustive": "every standard field x 41 type substitutions (values of the substituted type and of the standard type), alone and inside every legal domain"},
            {"name": "misc", "reps": 100 if T else 4},
            ] + [{"name": "cli-surface-%d" % i, "part": i} for i in range(8)]


def _doc(rng, members, cls, shown=None, domain_override=None, drop_domain_type=False, extra_types=None, standard_values=False):
    """standard_values: the substituted type names are NOT defined as structs and every standard field carries a value of its
    *standard* type - the document a user would write who believes `uint` / `String` / `bytes` is just another spelling. A tool that
    maps such a name onto the standard type accepts exactly this form (and refuses the struct-valued one)."""
    types = {"EIP712Domain": list(members), "P": [("x", "uint8"), ("s", "string")]}
    if not standard_values:
        types.update({"Foo": [("a", "bool")], "String": [], "uint": [("v", "uint8")]})
    if extra_types:
        types.update(extra_types)
    if not standard_values:
        for _, ts in members:
            r = eip712.struct_ref(ts)
            if r and r not in types:
                types[r] = [("v", "uint8")]
    # a domain value that conforms to whatever was declared (duplicates collapse to one key)
    dom = {}
    std = dict(F)
    for mn, ts in members:
        if standard_values:
            dom[mn] = tdgen.rand_value_tree(rng, types, std.get(mn, "string"), 2, tdgen.Budget(10))
        else:
            dom[mn] = tdgen.rand_value_tree(rng, types, ts, 2, tdgen.Budget(10))
    if domain_override:
        domain_override(dom)
    t = dict(types)
    if drop_domain_type:
        del t["EIP712Domain"]
    text = tdgen.assemble(rng, t, "P", tdgen.render_tree(rng, dom), '{"x":%d,"s":"m"}' % rng.randrange(256))
    return lib_case("doc", {"op": "typeddata.hash", "json": text},
                    {"cls": cls, "shown": shown or ("EIP712Domain(%s)" % ",".join("%s %s" % (ts, mn) for mn, ts in members))})


def _cls_of(members):
    names = [m for m, _ in members]
    std = [n for n, _ in F]
    if not members:
        return "empty"
    if any(n not in std for n in names):
        return "foreign-name"
    if any(dict(F)[n] != t for n, t in members):
        return "wrong-type"
    if len(set(names)) != len(names):
        return "repeated"
    if [n for n in std if n in names] != names:
        return "reordered"
    return "wellformed"


def gen(shard, rng, tier):
    name = shard["name"]
    if name.startswith("cli-surface"):
        # a sample of the same documents through every command that reads a typed-data document (see tdcli)
        def lib_cases():
            for sub in [dict(s, reps=1) for s in shards("quick", 0) if s["name"] in ("orderings", "foreign", "substitutions", "misc")]:
                yield from gen(sub, rng, tier)
        yield from tdcli.from_lib_cases(lib_cases(), every=5, limit=3000 if tier == "thorough" else 360, part=shard["part"], parts=8)
        return
    if name == "orderings":
        for _ in range(shard["reps"]):
            for k in range(0, 6):
                for perm in itertools.permutations(F, k):
                    yield from both(_doc(rng, list(perm), _cls_of(perm)))
    elif name.startswith("repetition-"):
        i = 0
        for k in range(0, 6):
            for seq in itertools.product(F, repeat=k):
                i += 1
                if i % shard["parts"] != shard["part"]:
                    continue
                c = _doc(rng, list(seq), _cls_of(seq))
                c["profile"] = "dev" if i % 3 == 0 else "release"
                yield c
    elif name == "foreign":
        for _ in range(shard["reps"]):
            for dom in tdgen.domain_subsets():
                for pos in range(len(dom) + 1):
                    foreign = rng.choice(FOREIGN)
                    m = list(dom[:pos]) + [foreign] + list(dom[pos:])
                    yield from both(_doc(rng, m, "foreign-name"))
            # every foreign name alone, first and last in the full domain, and *instead of* the standard field it resembles
            for foreign in FOREIGN:
                yield from both(_doc(rng, [foreign], "foreign-name"))
                yield from both(_doc(rng, [foreign] + list(F), "foreign-name"))
                yield from both(_doc(rng, list(F) + [foreign], "foreign-name"))
                like = [i for i, (n, _) in enumerate(F) if n.lower() == foreign[0].strip().lower()]
                if like:
                    m = list(F)
                    m[like[0]] = foreign
                    yield from both(_doc(rng, m, "foreign-name"))
    elif name == "substitutions":
        for _ in range(shard["reps"]):
            for fi, (fn, ft) in enumerate(F):
                for sub in SUBST:
                    m = [(fn, sub)]
                    yield from both(_doc(rng, m, _cls_of(m)))
                    dom = rng.choice([d for d in tdgen.domain_subsets() if (fn, ft) in d])
                    m = [(n, sub if n == fn else t) for n, t in dom]
                    yield from both(_doc(rng, m, _cls_of(m)))
                    if sub != ft:
                        # the same declarations with the values of the standard types and no struct behind an alias-like name
                        yield from both(_doc(rng, [(fn, sub)], _cls_of([(fn, sub)]), standard_values=True))
                        yield from both(_doc(rng, m, _cls_of(m), standard_values=True))
    else:
        for _ in range(shard["reps"]):
            for dom in tdgen.domain_subsets():
                yield from both(_doc(rng, dom, "no-domain-type", "no EIP712Domain type at all", drop_domain_type=True))
                victim = rng.choice(dom)[0]
                yield from both(_doc(rng, dom, "domain-value-missing-member", "domain value without %s" % victim,
                                     domain_override=lambda d, victim=victim: d.pop(victim)))
                extra = rng.choice([f for f in F if f not in dom] or [("other", "string")])
                yield from both(_doc(rng, dom, "domain-value-extra-member", "domain value with undeclared %s" % extra[0],
                                     domain_override=lambda d, extra=extra: d.__setitem__(extra[0], '"1"')))
                yield from both(_doc(rng, dom, "wellformed"))
