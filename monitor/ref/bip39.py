"""BIP-39 reference: word list (own pinned copy), entropy <-> phrase, seed."""
import hashlib
import os
import unicodedata

_HERE = os.path.dirname(os.path.abspath(__file__))
WORDLIST_SHA256 = "2f5eed53a4727b4bf8880d8f3f199efc90e58503646d9ff8eff3a2ed3b24dbda"

_raw = open(os.path.join(_HERE, "bip39_english.txt"), "rb").read()
if hashlib.sha256(_raw).hexdigest() != WORDLIST_SHA256:
    raise RuntimeError("pinned BIP-39 word list does not match the published SHA-256")
WORDS = _raw.decode().split()
assert len(WORDS) == 2048
INDEX = {w: i for i, w in enumerate(WORDS)}

LEGAL_COUNTS = (12, 15, 18, 21, 24)
ENT_BYTES = {12: 16, 15: 20, 18: 24, 21: 28, 24: 32}

ASCII_WS = " \t\n\r\x0b\x0c"
# The Unicode White_Space property (stable since Unicode 6.3): what "whitespace" means for phrase layouts.
UNICODE_WS = ASCII_WS + "\x85\xa0\u1680" + "".join(chr(c) for c in range(0x2000, 0x200b)) + "\u2028\u2029\u202f\u205f\u3000"


def split_ws(phrase):
    """Words of a phrase: maximal runs of non-White_Space characters."""
    out, cur = [], []
    for ch in phrase:
        if ch in UNICODE_WS:
            if cur:
                out.append("".join(cur))
                cur = []
        else:
            cur.append(ch)
    if cur:
        out.append("".join(cur))
    return out


def encode(entropy):
    """entropy bytes (16/20/24/28/32) -> list of words."""
    ent = len(entropy) * 8
    assert ent in (128, 160, 192, 224, 256)
    cs = ent // 32
    h = hashlib.sha256(entropy).digest()
    v = (int.from_bytes(entropy, "big") << cs) | (h[0] >> (8 - cs))
    n = (ent + cs) // 11
    return [WORDS[(v >> (11 * (n - 1 - i))) & 2047] for i in range(n)]


def decode_words(words):
    """list of words -> (entropy bytes) or raises ValueError with a reason in
    {'count', 'word', 'checksum'}."""
    n = len(words)
    if n not in LEGAL_COUNTS:
        raise ValueError("count")
    v = 0
    for w in words:
        if w not in INDEX:
            raise ValueError("word")
        v = (v << 11) | INDEX[w]
    cs = n // 3
    ent_bits = n * 11 - cs
    entropy = (v >> cs).to_bytes(ent_bits // 8, "big")
    if hashlib.sha256(entropy).digest()[0] >> (8 - cs) != v & ((1 << cs) - 1):
        raise ValueError("checksum")
    return entropy


def classify(words):
    """'ok' | 'count' | 'word' | 'checksum' for a list of words. A phrase that is
    wrong in more than one way is simply invalid; the first applicable reason in
    this order is returned (the property only requires rejection)."""
    try:
        decode_words(words)
        return "ok"
    except ValueError as e:
        return e.args[0]


def valid_last_words(prefix_words):
    """For a prefix of n-1 valid words, the set of final words that make an
    n-word phrase valid (empty when n is not a legal count)."""
    n = len(prefix_words) + 1
    if n not in LEGAL_COUNTS:
        return []
    out = []
    v = 0
    for w in prefix_words:
        v = (v << 11) | INDEX[w]
    cs = n // 3
    ent_bits = n * 11 - cs
    for rest in range(1 << (11 - cs)):
        ev = (v << (11 - cs)) | rest
        entropy = ev.to_bytes(ent_bits // 8, "big")
        c = hashlib.sha256(entropy).digest()[0] >> (8 - cs)
        out.append(WORDS[(rest << cs) | c])
    return out


def seed(words, passphrase):
    pw = " ".join(words).encode("utf-8")
    salt = unicodedata.normalize("NFKD", "mnemonic" + passphrase).encode("utf-8")
    return hashlib.pbkdf2_hmac("sha512", pw, salt, 2048, 64)


def selftest():
    # Trezor reference vectors (python-mnemonic vectors.json), passphrase TREZOR
    vecs = [
        ("00000000000000000000000000000000",
         "abandon abandon abandon abandon abandon abandon abandon abandon abandon abandon abandon about",
         "c55257c360c07c72029aebc1b53c05ed0362ada38ead3e3e9efa3708e53495531f09a6987599d18264c1e1c92f2cf141630c7a3c4ab7c81b2f001698e7463b04"),
        ("7f7f7f7f7f7f7f7f7f7f7f7f7f7f7f7f",
         "legal winner thank year wave sausage worth useful legal winner thank yellow",
         "2e8905819b8723fe2c1d161860e5ee1830318dbf49a83bd451cfb8440c28bd6fa457fe1296106559a3c80937a1c1069be3a3a5bd381ee6260e8d9739fce1f607"),
        ("808080808080808080808080808080808080808080808080",
         "letter advice cage absurd amount doctor acoustic avoid letter advice cage absurd amount doctor acoustic avoid letter always",
         "107d7c02a5aa6f38c58083ff74f04c607c2d2c0ecc55501dadd72d025b751bc27fe913ffb796f841c49b1d33b610cf0e91d3aa239027f5e99fe4ce9e5088cd65"),
        ("ffffffffffffffffffffffffffffffffffffffffffffffffffffffffffffffff",
         "zoo zoo zoo zoo zoo zoo zoo zoo zoo zoo zoo zoo zoo zoo zoo zoo zoo zoo zoo zoo zoo zoo zoo vote",
         "dd48c104698c30cfe2b6142103248622fb7bb0ff692eebb00089b32d22484e1613912f0a5b694407be899ffd31ed3992c456cdf60f5d4564b8ba3f05a69890ad"),
        ("f585c11aec520db57dd353c69554b21a89b20fb0650966fa0a9d6f74fd989d8f",
         "void come effort suffer camp survey warrior heavy shoot primary clutch crush open amazing screen patrol group space point ten exist slush involve unfold",
         "01f5bced59dec48e362f2c45b5de68b9fd6c92c6634f44d6d40aab69056506f0e35524a518034ddc1192e1dacd32c1ed3eaa3c3b131c88ed8e7e54c49a5d0998"),
    ]
    for ent, phrase, sd in vecs:
        e = bytes.fromhex(ent)
        assert " ".join(encode(e)) == phrase
        assert decode_words(phrase.split()) == e
        assert seed(phrase.split(), "TREZOR").hex() == sd
    for n in LEGAL_COUNTS:
        e = bytes(range(ENT_BYTES[n]))
        w = encode(e)
        assert len(w) == n and decode_words(w) == e
        v = valid_last_words(w[:-1])
        assert len(v) == 1 << (11 - n // 3) and w[-1] in v
        assert all(classify(w[:-1] + [x]) == "ok" for x in v[:5])
    assert classify(["abandon"] * 12) == "checksum"
    assert classify(["abandon"] * 13) == "count"
    assert classify(["abandon"] * 11 + ["abou"]) == "word"
