"""EIP-712 reference: type grammar, encodeType, encodeData, hashStruct, digest.
Written from the EIP text. Values are *abstract* (Python int / bytes / str / bool
/ dict / list); JSON spellings are the generator's business."""
import re

from .keccak import keccak256

_ATOMS = ("bool", "address", "string", "bytes")
_RE_BYTESN = re.compile(r"bytes([1-9][0-9]?)\Z")
_RE_UINT = re.compile(r"uint([1-9][0-9]{0,2})\Z")
_RE_INT = re.compile(r"int([1-9][0-9]{0,2})\Z")
_RE_ARR = re.compile(r"(.*)\[(0|[1-9][0-9]*)?\]\Z", re.S)

DOMAIN_FIELDS = [("name", "string"), ("version", "string"), ("chainId", "uint256"),
                 ("verifyingContract", "address"), ("salt", "bytes32")]


def parse_type(s):
    """Dispatch by the atom grammar first, never by prefix: `uint9`, `bytes0`,
    `bytes33`, `int264` are struct names."""
    if s in _ATOMS:
        return (s,)
    m = _RE_BYTESN.match(s)
    if m and 1 <= int(m.group(1)) <= 32:
        return ("bytesN", int(m.group(1)))
    m = _RE_UINT.match(s)
    if m and int(m.group(1)) % 8 == 0 and 8 <= int(m.group(1)) <= 256:
        return ("uint", int(m.group(1)))
    m = _RE_INT.match(s)
    if m and int(m.group(1)) % 8 == 0 and 8 <= int(m.group(1)) <= 256:
        return ("int", int(m.group(1)))
    m = _RE_ARR.match(s)
    if m:
        return ("array", m.group(1), None if m.group(2) is None else int(m.group(2)))
    return ("struct", s)


def struct_ref(type_string):
    t = parse_type(type_string)
    while t[0] == "array":
        t = parse_type(t[1])
    return t[1] if t[0] == "struct" else None


class Undefined(Exception):
    pass


def dependencies(types, primary):
    """Transitive closure of struct types referenced from `primary`, without
    the primary itself."""
    if primary not in types:
        raise Undefined(primary)
    seen = set()
    todo = [primary]
    while todo:
        n = todo.pop()
        for _, ts in types[n]:
            r = struct_ref(ts)
            if r is None or r in seen:
                continue
            if r not in types:
                raise Undefined(r)
            seen.add(r)
            todo.append(r)
    seen.discard(primary)
    return seen


def _one(types, name):
    return name + "(" + ",".join("%s %s" % (ts, mn) for mn, ts in types[name]) + ")"


def encode_type(types, primary):
    deps = dependencies(types, primary)
    # names are ASCII in every generated workload; sort by code point / byte
    return _one(types, primary) + "".join(_one(types, d) for d in sorted(deps, key=lambda x: x.encode("utf-8")))


def type_hash(types, name):
    return keccak256(encode_type(types, name).encode("utf-8"))


class NonConforming(Exception):
    pass


def encode_value(types, type_string, v, cache=None):
    t = parse_type(type_string)
    k = t[0]
    if k == "bool":
        if not isinstance(v, bool):
            raise NonConforming("bool")
        return (1 if v else 0).to_bytes(32, "big")
    if k == "address":
        if not (isinstance(v, bytes) and len(v) == 20):
            raise NonConforming("address")
        return b"\x00" * 12 + v
    if k == "string":
        if not isinstance(v, str):
            raise NonConforming("string")
        return keccak256(v.encode("utf-8"))
    if k == "bytes":
        if not isinstance(v, bytes):
            raise NonConforming("bytes")
        return keccak256(v)
    if k == "bytesN":
        if not (isinstance(v, bytes) and len(v) == t[1]):
            raise NonConforming("bytesN length")
        return v + b"\x00" * (32 - t[1])
    if k == "uint":
        if isinstance(v, bool) or not isinstance(v, int) or not (0 <= v < 2 ** t[1]):
            raise NonConforming("uint range")
        return v.to_bytes(32, "big")
    if k == "int":
        if isinstance(v, bool) or not isinstance(v, int) or not (-(2 ** (t[1] - 1)) <= v < 2 ** (t[1] - 1)):
            raise NonConforming("int range")
        return (v % 2**256).to_bytes(32, "big")
    if k == "array":
        if not isinstance(v, list):
            raise NonConforming("array")
        if t[2] is not None and len(v) != t[2]:
            raise NonConforming("array size")
        return keccak256(b"".join(encode_value(types, t[1], e, cache) for e in v))
    # struct
    if not isinstance(v, dict):
        raise NonConforming("struct")
    return hash_struct(types, t[1], v, cache)


def hash_struct(types, name, value, cache=None):
    """cache: optional dict reused across calls on the *same* types (type hashes only)."""
    if name not in types:
        raise Undefined(name)
    members = types[name]
    names = [mn for mn, _ in members]
    if cache is not None and name in cache:
        buf = cache[name]
    else:
        buf = type_hash(types, name)
        if cache is not None:
            cache[name] = buf
    for mn, ts in members:
        if mn not in value:
            raise NonConforming("missing member " + mn)
        buf += encode_value(types, ts, value[mn], cache)
    if set(value) - set(names):
        raise NonConforming("undeclared member")
    return keccak256(buf)


def domain_type_ok(members):
    """members: list of (name, type string). C20's acceptance rule."""
    if not members:
        return False
    pos = 0
    for mn, ts in members:
        while pos < len(DOMAIN_FIELDS) and DOMAIN_FIELDS[pos][0] != mn:
            pos += 1
        if pos == len(DOMAIN_FIELDS):
            return False
        if DOMAIN_FIELDS[pos][1] != ts:
            return False
        pos += 1
    return True


def digest(types, primary, domain, message):
    """Returns (digest, domainSeparator, messageHash)."""
    if "EIP712Domain" not in types:
        raise Undefined("EIP712Domain")
    if not domain_type_ok(types["EIP712Domain"]):
        raise NonConforming("domain type")
    ds = hash_struct(types, "EIP712Domain", domain)
    mh = hash_struct(types, primary, message)
    return keccak256(b"\x19\x01" + ds + mh), ds, mh


def selftest():
    types = {
        "EIP712Domain": [("name", "string"), ("version", "string"), ("chainId", "uint256"),
                         ("verifyingContract", "address")],
        "Person": [("name", "string"), ("wallet", "address")],
        "Mail": [("from", "Person"), ("to", "Person"), ("contents", "string")],
    }
    assert encode_type(types, "Mail") == "Mail(Person from,Person to,string contents)Person(string name,address wallet)"
    assert type_hash(types, "Mail").hex() == "a0cedeb2dc280ba39b857546d74f5549c3a1d7bdc2dd96bf881f76108e23dac2"
    domain = {"name": "Ether Mail", "version": "1", "chainId": 1,
              "verifyingContract": bytes.fromhex("CcCCccccCCCCcCCCCCCcCcCccCcCCCcCcccccccC")}
    msg = {"from": {"name": "Cow", "wallet": bytes.fromhex("CD2a3d9F938E13CD947Ec05AbC7FE734Df8DD826")},
           "to": {"name": "Bob", "wallet": bytes.fromhex("bBbBBBBbbBBBbbbBbbBbbbbBBbBbbbbBbBbbBBbB")},
           "contents": "Hello, Bob!"}
    d, ds, mh = digest(types, "Mail", domain, msg)
    assert ds.hex() == "f2cee375fa42b42143804025fc449deafd50cc031ca257e0b194a650a912090f"
    assert mh.hex() == "c52c0ee5d84264471806290a3f2c4cecfc5490626bf912d01f240d7a274b371e"
    assert d.hex() == "be609aee343fb3c4b28e1df9e632fca64fcfaede20f02e86244efddf30957bd2"
    # the repo's second fixture (deeply nested, all atom kinds)
    t2 = {
        "EIP712Domain": [("name", "string")],
        "Foo": [("bytes", "bytes"), ("bytes4", "bytes4"), ("uint96", "uint96"), ("int32", "int32"), ("bool", "bool"),
                ("address", "address"), ("string", "string"), ("nested", "Bar[]")],
        "Bar": [("inner", "Baz[2]")],
        "Baz": [("value", "uint256")],
    }
    m2 = {"bytes": bytes.fromhex("010203"), "bytes4": bytes.fromhex("11223344"), "uint96": 42, "int32": -1337,
          "bool": True, "address": bytes.fromhex("EeeeeEeeeEeEeeEeEeEeeEEEeeeeEeeeeeeeEEeE"), "string": "hello hdwallet",
          "nested": [{"inner": [{"value": 2}, {"value": 3}]}, {"inner": [{"value": 4}, {"value": 5}]}]}
    d2, _, _ = digest(t2, "Foo", {"name": "Test"}, m2)
    assert d2.hex() == "a150d6fdc3fe189531a29808ccdd2808005c24274de09187af619f69377221a1"
    # encodeType: closure, each once, sorted, primary excluded even when recursive
    t3 = {"Foo": [("a", "A"), ("b1", "B"), ("b2", "B")], "A": [("x", "uint8")], "B": [("y", "Foo[]")]}
    assert encode_type(t3, "Foo") == "Foo(A a,B b1,B b2)A(uint8 x)B(Foo[] y)"
    assert encode_type(t3, "B") == "B(Foo[] y)A(uint8 x)Foo(A a,B b1,B b2)"
    for s, want in (("uint9", ("struct", "uint9")), ("bytes0", ("struct", "bytes0")), ("bytes33", ("struct", "bytes33")),
                    ("int264", ("struct", "int264")), ("uint256[]", ("array", "uint256", None)),
                    ("Foo2[3][]", ("array", "Foo2[3]", None)), ("bytes32", ("bytesN", 32)), ("int8", ("int", 8)),
                    ("uint08", ("struct", "uint08")), ("bool[][3]", ("array", "bool[]", 3))):
        assert parse_type(s) == want, s
    assert domain_type_ok([("name", "string"), ("salt", "bytes32")])
    assert not domain_type_ok([("salt", "bytes32"), ("name", "string")])
    assert not domain_type_ok([("name", "string"), ("name", "string")])
    assert not domain_type_ok([]) and not domain_type_ok([("chainId", "uint")])
