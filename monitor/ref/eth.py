"""BIP-32 private derivation, Ethereum address / EIP-55, EIP-191, signature text,
HD path grammar — reference models written from the specifications."""
import hashlib
import hmac
import re

from . import secp
from .keccak import keccak256

N = secp.N


# ---------------------------------------------------------------- BIP-32
class InvalidChild(Exception):
    pass


def bip32_master(seed):
    I = hmac.new(b"Bitcoin seed", seed, hashlib.sha512).digest()
    return int.from_bytes(I[:32], "big"), I[32:]


def bip32_ckd(k, c, index, hardened):
    """CKDpriv. index < 2^31; hardened adds 2^31. Raises InvalidChild where
    BIP-32 declares the child invalid."""
    assert 0 <= index < 2**31
    if hardened:
        data = b"\x00" + k.to_bytes(32, "big") + (index + 2**31).to_bytes(4, "big")
    else:
        data = secp.ser_compressed(secp.pubkey(k)) + index.to_bytes(4, "big")
    I = hmac.new(c, data, hashlib.sha512).digest()
    il = int.from_bytes(I[:32], "big")
    if il >= N:
        raise InvalidChild()
    child = (il + k) % N
    if child == 0:
        raise InvalidChild()
    return child, I[32:]


def bip32_derive(seed, components):
    """components: list of (index, hardened). Returns the private key integer."""
    k, c = bip32_master(seed)
    if not (1 <= k < N):
        raise InvalidChild()
    for index, hardened in components:
        k, c = bip32_ckd(k, c, index, hardened)
    return k


def bip32_trace(seed, components):
    """[(key, chain code)] for the master node and every level of the path."""
    k, c = bip32_master(seed)
    if not (1 <= k < N):
        raise InvalidChild()
    out = [(k, c)]
    for index, hardened in components:
        k, c = bip32_ckd(k, c, index, hardened)
        out.append((k, c))
    return out


# ---------------------------------------------------------------- HD path grammar
_COMPONENT = re.compile(r"(0|[1-9][0-9]*)('?)\Z")


def parse_path_strict(text):
    """The canonical grammar of C14: m(/DEC['])+ with canonical decimals < 2^31.
    Returns the component list, or None when the text is not canonical."""
    if not text.startswith("m/"):
        return None
    comps = []
    for part in text[2:].split("/"):
        m = _COMPONENT.match(part)
        if not m:
            return None
        v = int(m.group(1))
        if v >= 2**31:
            return None
        comps.append((v, m.group(2) == "'"))
    return comps


def format_path(components):
    return "m" + "".join("/%d%s" % (i, "'" if h else "") for i, h in components)


def default_path(index):
    return [(44, True), (60, True), (0, True), (0, False), (index, False)]


# ---------------------------------------------------------------- address
def eip55(addr20):
    h = addr20.hex()
    d = keccak256(h.encode()).hex()
    return "0x" + "".join(c.upper() if int(d[i], 16) >= 8 else c for i, c in enumerate(h))


def address_bytes_of_pub(pt):
    return keccak256(secp.ser_uncompressed(pt)[1:])[12:]


def address_of_key(k):
    return eip55(address_bytes_of_pub(secp.pubkey(k)))


# ---------------------------------------------------------------- EIP-191
def eip191_digest(msg):
    return keccak256(b"\x19Ethereum Signed Message:\n" + str(len(msg)).encode() + msg)


# ---------------------------------------------------------------- signature text
def sig_text(r, s, parity):
    return "0x%064x%064x%02x" % (r, s, 27 + parity)


def selftest():
    # Ganache deterministic mnemonic -> first account
    from . import bip39
    words = "myth like bonus scare over problem client lizard pioneer submit female collect".split()
    sd = bip39.seed(words, "")
    k = bip32_derive(sd, default_path(0))
    assert k == 0x4F3EDF983AC636A65A842CE7C78D9AA706D3B113BCE9C46F30D7D21715B23B1D
    assert address_of_key(k) == "0x90F8bf6A479f320ead074411a4B0e7944Ea8c9C1"
    k1 = bip32_derive(sd, default_path(1))
    assert address_of_key(k1) == "0xFFcf8FDEE72ac11b5c542428B35EEF5769C409f0"
    # BIP-32 test vector 1 (seed 000102...0f): m/0'/1/2'/2/1000000000
    seed = bytes(range(16))
    chain = [(0, True), (1, False), (2, True), (2, False), (1000000000, False)]
    expect = [
        0xE8F32E723DECF4051AEFAC8E2C93C9C5B214313817CDB01A1494B917C8436B35,
        0xEDB2E14F9EE77D26DD93B4ECEDE8D16ED408CE149B6CD80B0715A2D911A0AFEA,
        0x3C6CB8D0F6A264C91EA8B5030FADAA8E538B020F0A387421A12DE9319DC93368,
        0xCBCE0D719ECF7431D88E6A89FA1483E02E35092AF60C042B1DF2FF59FA424DCA,
        0x0F479245FB19A38A1954C5C7C0EBAB2F9BDFD96A17563EF28A6A4B1A2A764EF4,
        0x471B76E389E528D6DE6D816857E012C5455051CAD6660850E58372A6C3E6E7C8,
    ]
    for d in range(len(chain) + 1):
        assert bip32_derive(seed, chain[:d]) == expect[d], d
    # EIP-55 examples from the EIP
    for a in ("0x5aAeb6053F3E94C9b9A09f33669435E7Ef1BeAed", "0xfB6916095ca1df60bB79Ce92cE3Ea74c37c5d359",
              "0xdbF03B407c01E7cD3CBea99509d93f8DDDC8C6FB", "0xD1220A0cf47c7B9Be7A2E6BA89F429762e7b9aDb",
              "0x52908400098527886E0F7030069857D2E4169EE7", "0xde709f2102306220921060314715629080e2fb77"):
        assert eip55(bytes.fromhex(a[2:])) == a
    assert parse_path_strict("m/44'/60'/0'/0/7") == default_path(7)
    assert parse_path_strict("m/2147483648") is None and parse_path_strict("m/01") is None
    assert parse_path_strict("m") is None and parse_path_strict("m/") is None
    assert format_path(default_path(3)) == "m/44'/60'/0'/0/3"
    # the repo's own pinned signature fixture (eth_sign of "Hello World!" with the ganache key)
    d = eip191_digest(b"Hello World!")
    r, s, par, _ = secp.sign_rfc6979(k, d)
    assert (r, s, par) == (0x408790F153CBFA2722FC708A57D97A43B24429724CF060DF7C915D468C43BD84,
                           0x61C96AAC95CE37D7A31087B6634F4A3EA439A9F704B5C818584FA2A32FA83859, 1)
