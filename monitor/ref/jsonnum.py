"""Exact meaning of numeric spellings in transaction / typed-data JSON.

Every spelling is classified from its *text* alone into
  ("accept", v)   the property obliges the tool to take it as integer v
  ("reject", why) the property obliges the tool to refuse it
  ("either", v)   the property does not speak about this spelling; if the tool
                  accepts it, the value must be v (v None = nothing is checked)
"""
import re
from fractions import Fraction

_NUM = re.compile(r"-?(0|[1-9][0-9]*)(\.[0-9]+)?([eE][+-]?[0-9]+)?\Z")
_DEC = re.compile(r"(0|[1-9][0-9]*)\Z")
_HEX = re.compile(r"0x([0-9a-fA-F]+)\Z")

U256_MAX = 2**256 - 1


def exact_number(tok):
    """Exact rational value of a JSON number token."""
    m = _NUM.match(tok)
    if not m:
        raise ValueError("not a JSON number: %r" % tok)
    return Fraction(tok), bool(m.group(2) or m.group(3))


def classify_number_token(tok, lo=0, hi=U256_MAX):
    """A JSON number literal for an integer field with range [lo, hi]."""
    exact, floaty = exact_number(tok)
    if exact.denominator != 1:
        # fractional. Sub-class used for known-finding signatures: the literal's
        # correctly rounded double happens to be an integer.
        try:
            f = float(tok)
            below = f.is_integer() and abs(f) < 2**53
        except OverflowError:
            below = False
        return ("reject", "fraction-below-half-ulp" if below else "fraction")
    v = int(exact)
    if v == 0 and tok.startswith("-"):
        return ("either", 0) if lo <= 0 <= hi else ("reject", "range")
    if v < lo:
        return ("reject", "negative" if lo == 0 else "below-range")
    if v > hi:
        return ("reject", "above-range")
    if floaty:
        return ("accept", v) if abs(v) < 2**53 else ("either", v)
    if -(2**63) <= v < 2**64:
        return ("accept", v)
    return ("either", v)


def classify_numeric_string(s, lo=0, hi=U256_MAX):
    """A JSON string for an integer field with range [lo, hi]."""
    neg = False
    body = s
    if lo < 0 and s.startswith("-"):
        neg = True
        body = s[1:]
    m = _DEC.match(body)
    if m:
        v = -int(body) if neg else int(body)
        if neg and v == 0:
            return ("either", 0)
        return ("accept", v) if lo <= v <= hi else ("reject", "range")
    m = _HEX.match(body)
    if m:
        v = int(m.group(1), 16)
        v = -v if neg else v
        canonical = m.group(1) == "0" or not m.group(1).startswith("0")
        if not (lo <= v <= hi):
            return ("reject", "range")
        if neg and v == 0:
            return ("either", 0)
        return ("accept", v) if canonical else ("either", v)
    if s == "" or body == "" or s in ("0x", "-0x", "-"):
        return ("reject", "empty")
    t = s.strip(" \t\n\r\f\v")
    if t != s:
        # white space around a number: the property does not say whether it is tolerated; if it is, the value is the number's
        if t == "":
            return ("reject", "empty")
        k, val = classify_numeric_string(t, lo, hi)
        if k in ("accept", "either"):
            return ("either", val)
        if k == "reject" and val == "range":
            return ("either-reject-preferred", None)
        return (k, val)
    if re.match(r"[+-]?0[xX][+\-]", s):
        return ("reject", "not-a-number")  # a sign after the prefix: 0x+a, 0x-1
    if re.match(r"0x[0-9a-fA-F]*[+\-. ][0-9a-fA-F+\-. ]*\Z", s) or re.match(r"[0-9]+[ _]*[a-zA-Z]{2,}[0-9]*\Z", s) or \
            re.match(r"(0x[0-9a-fA-F]+|[0-9]+\.[0-9]+)[ _]*[g-zG-Z][a-zA-Z0-9]*\Z", s):
        return ("reject", "not-a-number")  # a sign / blank / dot inside hex digits; a number followed by a word (1 ether, 30gwei)
    if lo == 0 and re.match(r"-(0x[0-9a-fA-F]*[1-9a-fA-F][0-9a-fA-F]*|[0-9]*[1-9][0-9]*)\Z", s):
        return ("reject", "negative")
    if re.match(r"-?[0-9]+\.[0-9]*[1-9][0-9]*\Z", s):
        return ("reject", "fraction-string")
    if re.search(r"[g-wyzG-WYZ]", s) and not re.match(r"[+-]?0[bBoO]", s):
        # contains a letter that is neither a hex digit, nor the x of 0x, nor an
        # exponent marker (e is a hex digit): cannot denote a number
        return ("reject", "not-a-number")
    # "+5", "007", "0b101", "0o17", "1e3", " 5", "0X1F", "1_000", ... : unspecified
    v = None
    for rx, base in ((r"\+?(0*[0-9]+)\Z", 10), (r"\+?0[bB]([01]+)\Z", 2), (r"\+?0[oO]([0-7]+)\Z", 8),
                     (r"\+?0[xX]([0-9a-fA-F]+)\Z", 16)):
        mm = re.match(rx, body)
        if mm:
            v = int(mm.group(1), base)
            v = -v if neg else v
            break
    if v is not None and not (lo <= v <= hi):
        v = None  # out of range in an unspecified spelling: accept-or-reject unchecked... but never a wrapped value
        return ("either-reject-preferred", None)
    return ("either", v)


def selftest():
    c = classify_number_token
    assert c("0") == ("accept", 0) and c("18446744073709551615") == ("accept", 2**64 - 1)
    assert c("18446744073709551616") == ("either", 2**64)
    assert c("-1") == ("reject", "negative") and c("-0") == ("either", 0) and c("-0.0") == ("either", 0)
    assert c("1.5") == ("reject", "fraction") and c("1e-1") == ("reject", "fraction")
    assert c("1.00000000000000001") == ("reject", "fraction-below-half-ulp")
    assert c("4503599627370496.25") == ("reject", "fraction-below-half-ulp")
    assert c("0.5") == ("reject", "fraction")
    assert c("13.37e9") == ("accept", 13370000000) and c("1E+3") == ("accept", 1000) and c("10e-1") == ("accept", 1)
    assert c("9007199254740991.0") == ("accept", 2**53 - 1) and c("9007199254740992.0") == ("either", 2**53)
    assert c("1e77") == ("either", 10**77) and c("1e78") == ("reject", "above-range")
    assert c("-5", lo=-128, hi=127) == ("accept", -5) and c("-129", lo=-128, hi=127) == ("reject", "below-range")
    s = classify_numeric_string
    assert s("0") == ("accept", 0) and s(str(2**256 - 1)) == ("accept", 2**256 - 1)
    assert s(str(2**256)) == ("reject", "range") and s("0x" + "f" * 64) == ("accept", 2**256 - 1)
    assert s("0x1" + "0" * 64) == ("reject", "range")
    assert s("0xFf") == ("accept", 255) and s("0x00ff") == ("either", 255) and s("0x0") == ("accept", 0)
    assert s("") == ("reject", "empty") and s("0x") == ("reject", "empty")
    assert s("-1") == ("reject", "negative") and s("-0x1") == ("reject", "negative")
    assert s("1.5") == ("reject", "fraction-string") and s("12z") == ("reject", "not-a-number")
    assert s("hello") == ("reject", "not-a-number")
    assert s("0x+a") == ("reject", "not-a-number") and s("0x-1") == ("reject", "not-a-number") and s("0x+") == ("reject", "not-a-number")
    assert s("1 ether")[0] == "reject" and s("30gwei")[0] == "reject" and s("0x10gwei")[0] == "reject" and s("1.5 ether")[0] == "reject"
    assert s("0x" + "0" * 31 + "+" + "1" * 32)[0] == "reject" and s("0x12 34")[0] == "reject" and s("1e3")[0] == "either" and s("1e18")[0] == "either"
    assert s("0x12 ") == ("either", 0x12) and s(" 0x12") == ("either", 0x12) and s("\t7\n") == ("either", 7) and s(" ")[0] == "reject"
    assert s(" 1.5")[0] == "reject" and s(" -1 ")[0] == "reject" and s(" " + str(2**256))[0] == "either-reject-preferred" and s("0x1 2")[0] == "reject"
    assert s("+5") == ("either", 5) and s("007") == ("either", 7) and s("0b101") == ("either", 5)
    assert s("0o17") == ("either", 15) and s("1e3")[0] == "either" and s(" 5")[0] == "either"
    assert s("-5", lo=-128, hi=127) == ("accept", -5) and s("-0x80", lo=-128, hi=127) == ("accept", -128)
    assert s("-0x81", lo=-128, hi=127) == ("reject", "range") and s("-0", lo=-128, hi=127) == ("either", 0)
    assert s("128", lo=-128, hi=127) == ("reject", "range")
