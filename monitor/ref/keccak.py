"""Keccak-256 (the pre-NIST padding used by Ethereum), written from the Keccak
reference specification. Pure Python, no dependency shared with hdwallet."""

_RC = [
    0x0000000000000001, 0x0000000000008082, 0x800000000000808A, 0x8000000080008000,
    0x000000000000808B, 0x0000000080000001, 0x8000000080008081, 0x8000000000008009,
    0x000000000000008A, 0x0000000000000088, 0x0000000080008009, 0x000000008000000A,
    0x000000008000808B, 0x800000000000008B, 0x8000000000008089, 0x8000000000008003,
    0x8000000000008002, 0x8000000000000080, 0x000000000000800A, 0x800000008000000A,
    0x8000000080008081, 0x8000000000008080, 0x0000000080000001, 0x8000000080008008,
]
# rotation offsets r[x][y]
_ROT = [
    [0, 36, 3, 41, 18],
    [1, 44, 10, 45, 2],
    [62, 6, 43, 15, 61],
    [28, 55, 25, 21, 56],
    [27, 20, 39, 8, 14],
]
_M = (1 << 64) - 1

# Pre-computed (source index, rotation, destination index) for rho+pi on a flat
# state a[x + 5*y].
_RHOPI = []
for _x in range(5):
    for _y in range(5):
        _RHOPI.append((_x + 5 * _y, _ROT[_x][_y], _y + 5 * ((2 * _x + 3 * _y) % 5)))


def _f1600(a):
    M = _M
    for rc in _RC:
        c0 = a[0] ^ a[5] ^ a[10] ^ a[15] ^ a[20]
        c1 = a[1] ^ a[6] ^ a[11] ^ a[16] ^ a[21]
        c2 = a[2] ^ a[7] ^ a[12] ^ a[17] ^ a[22]
        c3 = a[3] ^ a[8] ^ a[13] ^ a[18] ^ a[23]
        c4 = a[4] ^ a[9] ^ a[14] ^ a[19] ^ a[24]
        d0 = c4 ^ (((c1 << 1) | (c1 >> 63)) & M)
        d1 = c0 ^ (((c2 << 1) | (c2 >> 63)) & M)
        d2 = c1 ^ (((c3 << 1) | (c3 >> 63)) & M)
        d3 = c2 ^ (((c4 << 1) | (c4 >> 63)) & M)
        d4 = c3 ^ (((c0 << 1) | (c0 >> 63)) & M)
        d = (d0, d1, d2, d3, d4)
        b = [0] * 25
        for src, rot, dst in _RHOPI:
            v = a[src] ^ d[src % 5]
            b[dst] = ((v << rot) | (v >> (64 - rot))) & M if rot else v
        for y in (0, 5, 10, 15, 20):
            b0, b1, b2, b3, b4 = b[y], b[y + 1], b[y + 2], b[y + 3], b[y + 4]
            a[y] = b0 ^ (~b1 & b2 & M)
            a[y + 1] = b1 ^ (~b2 & b3 & M)
            a[y + 2] = b2 ^ (~b3 & b4 & M)
            a[y + 3] = b3 ^ (~b4 & b0 & M)
            a[y + 4] = b4 ^ (~b0 & b1 & M)
        a[0] ^= rc
    return a


def _sponge256(data, pad):
    data = bytes(data)
    rate = 136
    p = bytearray(data)
    p.append(pad)
    while len(p) % rate:
        p.append(0)
    p[-1] |= 0x80
    a = [0] * 25
    mv = memoryview(p)
    for off in range(0, len(p), rate):
        blk = mv[off:off + rate]
        for i in range(17):
            a[i] ^= int.from_bytes(blk[8 * i:8 * i + 8], "little")
        _f1600(a)
    return b"".join(a[i].to_bytes(8, "little") for i in range(4))


def keccak256(data):
    return _sponge256(data, 0x01)


def selftest():
    import hashlib
    assert keccak256(b"").hex() == "c5d2460186f7233c927e7db2dcc703c0e500b653ca82273b7bfad8045d85a470"
    assert keccak256(b"abc").hex() == "4e03657aea45a94fc7d47ba826c8d667c0d1e6e33a64a036ec44f58fa12d6c45"
    assert keccak256(b"hello world").hex() == "47173285a8d7341e5e972fc677286384f802f8ef42a5ec5f03bbfa254cb01fad"
    # The permutation, absorption and multi-block logic are validated against
    # hashlib's SHA3-256, which differs from Keccak-256 only in the padding byte.
    for n in list(range(0, 300)) + [407, 408, 409, 1000, 4096]:
        m = bytes((i * 7 + n) & 0xff for i in range(n))
        assert _sponge256(m, 0x06) == hashlib.sha3_256(m).digest(), n
