"""RLP: encoder and a *strict* (canonical-only) decoder, from the Yellow Paper
appendix B / the Ethereum wiki."""


def enc_len(n, offset):
    if n < 56:
        return bytes([offset + n])
    b = n.to_bytes((n.bit_length() + 7) // 8, "big")
    return bytes([offset + 55 + len(b)]) + b


def enc_bytes(b):
    b = bytes(b)
    if len(b) == 1 and b[0] < 0x80:
        return b
    return enc_len(len(b), 0x80) + b


def enc_uint(i):
    assert i >= 0
    return enc_bytes(i.to_bytes((i.bit_length() + 7) // 8, "big"))


def enc_list(encoded_items):
    p = b"".join(encoded_items)
    return enc_len(len(p), 0xC0) + p


def encode(item):
    """item: bytes | int | list (recursively)."""
    if isinstance(item, (bytes, bytearray)):
        return enc_bytes(item)
    if isinstance(item, int):
        return enc_uint(item)
    return enc_list([encode(x) for x in item])


class NonCanonical(Exception):
    pass


def _dec(buf, pos, end):
    if pos >= end:
        raise NonCanonical("truncated")
    b0 = buf[pos]
    if b0 < 0x80:
        return bytes([b0]), pos + 1
    if b0 < 0xB8:
        n = b0 - 0x80
        s, e = pos + 1, pos + 1 + n
        if e > end:
            raise NonCanonical("string overruns")
        if n == 1 and buf[s] < 0x80:
            raise NonCanonical("single byte < 0x80 wrapped in a string header")
        return bytes(buf[s:e]), e
    if b0 < 0xC0:
        ll = b0 - 0xB7
        if pos + 1 + ll > end:
            raise NonCanonical("length overruns")
        if buf[pos + 1] == 0:
            raise NonCanonical("leading zero in length")
        n = int.from_bytes(buf[pos + 1:pos + 1 + ll], "big")
        if n < 56:
            raise NonCanonical("long form used for short string")
        s, e = pos + 1 + ll, pos + 1 + ll + n
        if e > end:
            raise NonCanonical("string overruns")
        return bytes(buf[s:e]), e
    if b0 < 0xF8:
        n = b0 - 0xC0
        s, e = pos + 1, pos + 1 + n
    else:
        ll = b0 - 0xF7
        if pos + 1 + ll > end:
            raise NonCanonical("length overruns")
        if buf[pos + 1] == 0:
            raise NonCanonical("leading zero in length")
        n = int.from_bytes(buf[pos + 1:pos + 1 + ll], "big")
        if n < 56:
            raise NonCanonical("long form used for short list")
        s, e = pos + 1 + ll, pos + 1 + ll + n
    if e > end:
        raise NonCanonical("list overruns")
    items = []
    p = s
    while p < e:
        it, p = _dec(buf, p, e)
        items.append(it)
    if p != e:
        raise NonCanonical("list payload mismatch")
    return items, e


def decode_strict(buf):
    """Decodes exactly one item that must consume the whole buffer. Strings come
    back as bytes, lists as Python lists."""
    buf = bytes(buf)
    item, pos = _dec(buf, 0, len(buf))
    if pos != len(buf):
        raise NonCanonical("trailing bytes")
    return item


def as_uint(b):
    """Strict integer reading: no leading zero bytes (zero is the empty string)."""
    if not isinstance(b, bytes):
        raise NonCanonical("integer expected, got list")
    if len(b) > 0 and b[0] == 0:
        raise NonCanonical("integer with leading zero byte")
    return int.from_bytes(b, "big")


def selftest():
    assert encode(b"dog") == b"\x83dog"
    assert encode([b"cat", b"dog"]) == b"\xc8\x83cat\x83dog"
    assert encode(b"") == b"\x80" and encode([]) == b"\xc0" and encode(0) == b"\x80"
    assert encode(b"\x00") == b"\x00" and encode(15) == b"\x0f" and encode(1024) == b"\x82\x04\x00"
    assert encode([[], [[]], [[], [[]]]]) == bytes([0xC7, 0xC0, 0xC1, 0xC0, 0xC3, 0xC0, 0xC1, 0xC0])
    lorem = b"Lorem ipsum dolor sit amet, consectetur adipisicing elit"
    assert encode(lorem) == b"\xb8\x38" + lorem
    assert encode(b"\x7f") == b"\x7f" and encode(b"\x80") == b"\x81\x80"
    assert encode(b"a" * 55)[0] == 0xB7 and encode(b"a" * 56)[:2] == b"\xb8\x38"
    assert encode(b"a" * 256)[:3] == b"\xb9\x01\x00"
    for v in (b"", b"\x00", b"\x7f", b"\x80", b"a" * 55, b"a" * 56, b"a" * 255, b"a" * 256, b"a" * 65536,
              [b"a" * 60, [b"", [b"\x01"]], b"\xff" * 3], [[b"x" * 20, [b"y" * 32] * 3]] * 4):
        assert decode_strict(encode(v)) == v
    for bad in (b"\x81\x05", b"\xb8\x05hello", b"\xb9\x00\x38" + b"a" * 56, b"\x83do", b"\x83dogx",
                b"\xf8\x01\x80", b"\xc2\x83", b"\xf9\x00\x38" + b"\x80" * 56, b""):
        try:
            decode_strict(bad)
        except NonCanonical:
            continue
        raise AssertionError(bad)
    for bad in (b"\x00", b"\x00\x01"):
        try:
            as_uint(bad)
        except NonCanonical:
            continue
        raise AssertionError(bad)
    assert as_uint(b"") == 0 and as_uint(b"\x01\x00") == 256
