"""secp256k1 arithmetic, ECDSA (sign per RFC 6979 / verify / recover), written
from SEC 1 / SEC 2 / RFC 6979. Pure Python big integers; only hashlib/hmac
(SHA-256 HMAC) are trusted."""
import hashlib
import hmac

P = 2**256 - 2**32 - 977
N = 0xFFFFFFFFFFFFFFFFFFFFFFFFFFFFFFFEBAAEDCE6AF48A03BBFD25E8CD0364141
GX = 0x79BE667EF9DCBBAC55A06295CE870B07029BFCDB2DCE28D959F2815B16F81798
GY = 0x483ADA7726A3C4655DA4FBFC0E1108A8FD17B448A68554199C47D08FFB10D4B8
HALF_N = N // 2

# Jacobian points (X, Y, Z); infinity is Z == 0.
_INF = (0, 1, 0)


def _jdbl(p):
    X, Y, Z = p
    if Z == 0 or Y == 0:
        return _INF
    YY = Y * Y % P
    S = 4 * X * YY % P
    M = 3 * X * X % P  # a = 0
    X3 = (M * M - 2 * S) % P
    Y3 = (M * (S - X3) - 8 * YY * YY) % P
    Z3 = 2 * Y * Z % P
    return (X3, Y3, Z3)


def _jadd(p, q):
    X1, Y1, Z1 = p
    X2, Y2, Z2 = q
    if Z1 == 0:
        return q
    if Z2 == 0:
        return p
    Z1Z1 = Z1 * Z1 % P
    Z2Z2 = Z2 * Z2 % P
    U1 = X1 * Z2Z2 % P
    U2 = X2 * Z1Z1 % P
    S1 = Y1 * Z2 * Z2Z2 % P
    S2 = Y2 * Z1 * Z1Z1 % P
    if U1 == U2:
        if S1 != S2:
            return _INF
        return _jdbl(p)
    H = (U2 - U1) % P
    R = (S2 - S1) % P
    HH = H * H % P
    HHH = H * HH % P
    V = U1 * HH % P
    X3 = (R * R - HHH - 2 * V) % P
    Y3 = (R * (V - X3) - S1 * HHH) % P
    Z3 = H * Z1 * Z2 % P
    return (X3, Y3, Z3)


def _affine(p):
    X, Y, Z = p
    if Z == 0:
        return None
    zi = pow(Z, -1, P)
    zi2 = zi * zi % P
    return (X * zi2 % P, Y * zi2 * zi % P)


def _jmul(k, pt):
    """k * pt for an affine point pt (4-bit fixed window)."""
    k %= N
    if k == 0 or pt is None:
        return _INF
    base = (pt[0], pt[1], 1)
    tbl = [_INF, base]
    for i in range(2, 16):
        tbl.append(_jadd(tbl[i - 1], base) if i & 1 else _jdbl(tbl[i // 2]))
    r = _INF
    for shift in range(252, -4, -4):
        r = _jdbl(_jdbl(_jdbl(_jdbl(r))))
        w = (k >> shift) & 15
        if w:
            r = _jadd(r, tbl[w])
    return r


# Fixed-base table for G: _GT[i][w] = w * 16^i * G
_GT = None


def _gtable():
    global _GT
    if _GT is None:
        t = []
        base = (GX, GY, 1)
        for _ in range(64):
            row = [_INF, base]
            for w in range(2, 16):
                row.append(_jadd(row[w - 1], base))
            # normalise to Z = 1 to make later additions cheaper and exact
            row = [_INF] + [(lambda a: (a[0], a[1], 1))(_affine(x)) for x in row[1:]]
            t.append(row)
            base = _jdbl(_jdbl(_jdbl(_jdbl(base))))
            a = _affine(base)
            base = (a[0], a[1], 1)
        _GT = t
    return _GT


def _jmul_g(k):
    k %= N
    t = _gtable()
    r = _INF
    i = 0
    while k:
        w = k & 15
        if w:
            r = _jadd(r, t[i][w])
        k >>= 4
        i += 1
    return r


def mul(k, pt):
    """Affine scalar multiplication (None = point at infinity)."""
    return _affine(_jmul(k, pt))


def mul_g(k):
    return _affine(_jmul_g(k))


def add(p, q):
    if p is None:
        return q
    if q is None:
        return p
    return _affine(_jadd((p[0], p[1], 1), (q[0], q[1], 1)))


def on_curve(pt):
    return pt is not None and (pt[1] * pt[1] - pt[0] ** 3 - 7) % P == 0


def pubkey(k):
    assert 1 <= k < N
    return mul_g(k)


def ser_uncompressed(pt):
    return b"\x04" + pt[0].to_bytes(32, "big") + pt[1].to_bytes(32, "big")


def ser_compressed(pt):
    return bytes([2 + (pt[1] & 1)]) + pt[0].to_bytes(32, "big")


def rfc6979_k(x, h1):
    """RFC 6979 section 3.2 with HMAC-SHA256, qlen = 256, no additional data.
    h1 is the 32-byte digest; bits2octets reduces it mod N."""
    xb = x.to_bytes(32, "big")
    hb = (int.from_bytes(h1, "big") % N).to_bytes(32, "big")
    V = b"\x01" * 32
    K = b"\x00" * 32
    K = hmac.new(K, V + b"\x00" + xb + hb, hashlib.sha256).digest()
    V = hmac.new(K, V, hashlib.sha256).digest()
    K = hmac.new(K, V + b"\x01" + xb + hb, hashlib.sha256).digest()
    V = hmac.new(K, V, hashlib.sha256).digest()
    while True:
        V = hmac.new(K, V, hashlib.sha256).digest()
        k = int.from_bytes(V, "big")
        if 1 <= k < N:
            return k
        K = hmac.new(K, V + b"\x00", hashlib.sha256).digest()
        V = hmac.new(K, V, hashlib.sha256).digest()


def sign_rfc6979(x, h1):
    """Returns (r, s, parity, raw_s_was_high). s is low-s normalised with the
    parity flipped accordingly."""
    k = rfc6979_k(x, h1)
    R = mul_g(k)
    r = R[0] % N
    z = int.from_bytes(h1, "big") % N
    s = pow(k, -1, N) * (z + r * x) % N
    assert r != 0 and s != 0
    par = R[1] & 1
    # R.x >= N has probability ~2^-128; k256 would set the x-reduced bit.
    high = s > HALF_N
    if high:
        s = N - s
        par ^= 1
    return r, s, par, high


def verify(pub, h1, r, s):
    if not (1 <= r < N and 1 <= s < N):
        return False
    z = int.from_bytes(h1, "big") % N
    si = pow(s, -1, N)
    pt = _affine(_jadd(_jmul_g(z * si % N), _jmul(r * si % N, pub)))
    return pt is not None and pt[0] % N == r


def lift_x(x, parity):
    if x >= P:
        return None
    y2 = (pow(x, 3, P) + 7) % P
    y = pow(y2, (P + 1) // 4, P)
    if y * y % P != y2:
        return None
    if y & 1 != parity:
        y = P - y
    return (x, y)


def recover(h1, r, s, parity):
    """Public key recovery (SEC 1 4.1.6) for recovery ids 0/1 (R.x = r)."""
    if not (1 <= r < N and 1 <= s < N):
        return None
    R = lift_x(r, parity)
    if R is None:
        return None
    z = int.from_bytes(h1, "big") % N
    ri = pow(r, -1, N)
    return _affine(_jadd(_jmul(s * ri % N, R), _jmul_g((-z * ri) % N)))


def selftest():
    assert on_curve((GX, GY))
    assert mul_g(1) == (GX, GY)
    assert mul_g(N - 1) == (GX, P - GY)
    assert _affine(_jmul_g(N)) is None
    # 2G, 3G from the SEC 2 / widely published test vectors
    assert mul_g(2) == (
        0xC6047F9441ED7D6D3045406E95C07CD85C778E4B8CEF3CA7ABAC09B95C709EE5,
        0x1AE168FEA63DC339A3C58419466CEAEEF7F632653266D0E1236431A950CFE52A,
    )
    assert mul_g(3) == (
        0xF9308A019258C31049344F85F89D5229B531C845836F99B08601F113BCE036F9,
        0x388F7B0F632DE8140FE337E62A37F3566500A99934C2231B6CB9FD7584B8E672,
    )
    # generic multiplication agrees with the fixed-base one
    for k in (1, 2, 3, 15, 16, 17, 2**128 + 12345, N - 2, N - 1, 0xDEADBEEF << 200):
        assert mul(k, (GX, GY)) == mul_g(k), k
    assert add(mul_g(5), mul_g(7)) == mul_g(12)
    assert add(mul_g(5), mul_g(5)) == mul_g(10)
    assert add(mul_g(5), mul_g(N - 5)) is None
    # RFC 6979 secp256k1 vector widely used by libsecp256k1/bitcoin test suites:
    # key 1, message "Satoshi Nakamoto" (SHA-256).
    h = hashlib.sha256(b"Satoshi Nakamoto").digest()
    assert rfc6979_k(1, h) == 0x8F8A276C19F4149656B280621E358CCE24F5F52542772691EE69063B74F15D15
    r, s, par, high = sign_rfc6979(1, h)
    assert r == 0x934B1EA10A4B3C1757E2B0C017D0B6143CE3C9A7E6A4A49860D7A6AB210EE3D8
    assert s == 0x2442CE9D2B916064108014783E923EC36B49743E2FFA1C4496F01A512AAFD9E5
    pub = pubkey(1)
    assert verify(pub, h, r, s)
    assert recover(h, r, s, par) == pub
    assert recover(h, r, s, par ^ 1) != pub
    # algebraic round trip on a few keys/digests
    for i in range(1, 6):
        x = int.from_bytes(hashlib.sha256(b"k%d" % i).digest(), "big") % (N - 1) + 1
        d = hashlib.sha256(b"d%d" % i).digest()
        r, s, par, _ = sign_rfc6979(x, d)
        assert 1 <= s <= HALF_N
        assert verify(pubkey(x), d, r, s)
        assert recover(d, r, s, par) == pubkey(x)
