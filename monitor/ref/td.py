"""Typed-data documents: from JSON *text* to a three-valued conformance verdict
and (when conforming) the EIP-712 digests, independently of hdwallet.

classify(text) -> ("accept", (digest, domainSeparator, messageHash))
                | ("reject", reason)
                | ("either", digests-or-None)   unspecified spelling somewhere; if the tool accepts, the digests must be these
"""
import json
import re

from . import eip712, jsonnum


class NumTok(str):
    """A JSON number kept as its raw token."""


class Reject(Exception):
    pass


class _State:
    def __init__(self):
        self.either = False


_HEXBODY = re.compile(r"([0-9a-fA-F]{2})*\Z")


def _bytes_value(v, st):
    if not isinstance(v, str) or isinstance(v, NumTok):
        raise Reject("bytes: wrong JSON kind")
    if v.startswith("0x"):
        body = v[2:]
    else:
        raise Reject("bytes: missing 0x prefix")
    if not _HEXBODY.match(body):
        raise Reject("bytes: not even-length hex")
    return bytes.fromhex(body)


def _address_value(v, st):
    if not isinstance(v, str) or isinstance(v, NumTok):
        raise Reject("address: wrong JSON kind")
    body = v
    if body.startswith("0x"):
        body = body[2:]
        if body.startswith("0x") and len(body) == 42:
            body = body[2:]
            st.either = True  # doubled prefix in front of 20 bytes: unspecified (the ethaddr dependency accepts it)
    else:
        st.either = True  # un-prefixed address text: unspecified
    if len(body) != 40 or not re.match(r"[0-9a-fA-F]{40}\Z", body):
        raise Reject("address: not 20 bytes of hex")
    b = bytes.fromhex(body)
    if body != body.lower() and body != body.upper():
        from .eth import eip55
        if eip55(b)[2:] != body:
            st.either = True  # mixed case with a wrong EIP-55 checksum: unspecified
    return b


def _int_value(v, lo, hi, st):
    if isinstance(v, NumTok):
        cls, val = jsonnum.classify_number_token(str(v), lo, hi)
    elif isinstance(v, str):
        cls, val = jsonnum.classify_numeric_string(v, lo, hi)
    else:
        raise Reject("integer: wrong JSON kind")
    if cls == "accept":
        return val
    if cls == "reject":
        raise Reject("integer: %s" % val)
    if cls == "either-reject-preferred":
        raise Reject("integer: out of range in an unspecified spelling")
    st.either = True
    if val is None:
        raise _Unknown()
    return val


class _Unknown(Exception):
    """An unspecified spelling whose natural value cannot be named."""


def interpret(types, type_string, v, st):
    t = eip712.parse_type(type_string)
    k = t[0]
    if k == "bool":
        if v is True or v is False:
            return v
        raise Reject("bool: wrong JSON kind")
    if k == "address":
        return _address_value(v, st)
    if k == "string":
        if isinstance(v, str) and not isinstance(v, NumTok):
            return v
        raise Reject("string: wrong JSON kind")
    if k == "bytes":
        return _bytes_value(v, st)
    if k == "bytesN":
        b = _bytes_value(v, st)
        if len(b) != t[1]:
            raise Reject("bytes%d: %d bytes" % (t[1], len(b)))
        return b
    if k == "uint":
        return _int_value(v, 0, 2 ** t[1] - 1, st)
    if k == "int":
        return _int_value(v, -(2 ** (t[1] - 1)), 2 ** (t[1] - 1) - 1, st)
    if k == "array":
        if not isinstance(v, list):
            raise Reject("array: wrong JSON kind")
        if t[2] is not None and len(v) != t[2]:
            raise Reject("array: %d elements for size %d" % (len(v), t[2]))
        return [interpret(types, t[1], e, st) for e in v]
    # struct
    if t[1] not in types:
        raise Reject("undefined type %s" % t[1])
    if not isinstance(v, dict):
        raise Reject("struct: wrong JSON kind")
    out = {}
    for mn, ts in types[t[1]]:
        if mn not in v:
            raise Reject("missing member %s" % mn)
        out[mn] = interpret(types, ts, v[mn], st)
    if set(v) - {mn for mn, _ in types[t[1]]}:
        raise Reject("undeclared member")
    return out


def parse_document(text):
    """JSON text -> (types, primaryType, domain, message) with numbers kept as raw tokens.
    Raises Reject when the document does not have the typed-data shape."""
    try:
        doc = json.loads(text, parse_float=NumTok, parse_int=NumTok)
    except ValueError as e:
        raise Reject("not JSON: %s" % e)
    if not isinstance(doc, dict):
        raise Reject("document is not an object")
    for k in ("types", "primaryType", "domain", "message"):
        if k not in doc:
            raise Reject("missing %s" % k)
    if not isinstance(doc["types"], dict) or not isinstance(doc["primaryType"], str) or isinstance(doc["primaryType"], NumTok):
        raise Reject("types/primaryType shape")
    if not isinstance(doc["domain"], dict) or not isinstance(doc["message"], dict):
        raise Reject("domain/message must be objects")
    types = {}
    for name, members in doc["types"].items():
        if not isinstance(members, list):
            raise Reject("type definition is not a list")
        ms = []
        for m in members:
            if not (isinstance(m, dict) and isinstance(m.get("name"), str) and isinstance(m.get("type"), str)
                    and not isinstance(m["name"], NumTok) and not isinstance(m["type"], NumTok)):
                raise Reject("member is not {name, type}")
            ms.append((m["name"], m["type"]))
        types[name] = ms
    return types, doc["primaryType"], doc["domain"], doc["message"]


_DIM_BAD = re.compile(r"\[(\s*\+?0[0-9]+|\s*\+[0-9]+|\s+[0-9]*|[0-9]+\s+)\]")
_WIDTH = re.compile(r"(bytes|uint|int)(\+?[0-9]+)\Z")


def _noncanonical(ts):
    """Type strings that a lenient parser may read as an atom / array although they are not canonical (uint08, bytes01, uint+8,
    uint8[00], uint8[+1], uint8[ 1]): the properties do not speak about them. Canonical look-alikes (uint9, bytes0, bytes33) are
    ordinary struct names for the tool and for the reference alike."""
    if _DIM_BAD.search(ts):
        return True
    base = ts.split("[", 1)[0]
    m = _WIDTH.match(base)
    if m:
        d = m.group(2)
        return d.startswith("+") or (len(d) > 1 and d.startswith("0"))
    return False


def classify(text):
    try:
        types, primary, domain, message = parse_document(text)
        if any(_noncanonical(ts) for ms in types.values() for _, ts in ms):
            return ("either", None)
        if "EIP712Domain" not in types:
            raise Reject("no EIP712Domain type")
        if not eip712.domain_type_ok(types["EIP712Domain"]):
            raise Reject("malformed EIP712Domain type")
        if primary not in types:
            raise Reject("undefined primary type")
        try:
            eip712.dependencies(types, "EIP712Domain")
            eip712.dependencies(types, primary)
        except eip712.Undefined as e:
            raise Reject("undefined type %s" % e)
        st = _State()
        unknown = False
        dv = mv = None
        try:
            dv = interpret(types, "EIP712Domain", domain, st)
        except _Unknown:
            unknown = True
        try:
            mv = interpret(types, primary, message, st)
        except _Unknown:
            unknown = True
        if unknown:
            return ("either", None)
        reach = {"EIP712Domain", primary} | eip712.dependencies(types, primary) | eip712.dependencies(types, "EIP712Domain")
        if any(len({mn for mn, _ in types[n]}) != len(types[n]) for n in reach):
            # a struct type that names a member twice is itself malformed: what it hashes to is unspecified (a document that is
            # non-conforming for another reason was already refused above)
            return ("either", None)
        cache = {}
        ds = eip712.hash_struct(types, "EIP712Domain", dv, cache)
        mh = eip712.hash_struct(types, primary, mv, cache)
        from .keccak import keccak256
        out = (keccak256(b"\x19\x01" + ds + mh), ds, mh)
        return ("either", out) if st.either else ("accept", out)
    except Reject as e:
        return ("reject", str(e))
    except eip712.Undefined as e:
        return ("reject", "undefined type %s" % e)
    except eip712.NonConforming as e:
        return ("reject", str(e))


def selftest():
    mail = '''{"types":{"EIP712Domain":[{"name":"name","type":"string"},{"name":"version","type":"string"},{"name":"chainId","type":"uint256"},
    {"name":"verifyingContract","type":"address"}],"Person":[{"name":"name","type":"string"},{"name":"wallet","type":"address"}],
    "Mail":[{"name":"from","type":"Person"},{"name":"to","type":"Person"},{"name":"contents","type":"string"}]},"primaryType":"Mail",
    "domain":{"name":"Ether Mail","version":"1","chainId":%s,"verifyingContract":"0xCcCCccccCCCCcCCCCCCcCcCccCcCCCcCcccccccC"},
    "message":{"from":{"name":"Cow","wallet":"0xCD2a3d9F938E13CD947Ec05AbC7FE734Df8DD826"},"to":{"name":"Bob",
    "wallet":"0xbBbBBBBbbBBBbbbBbbBbbbbBBbBbbbbBbBbbBBbB"},"contents":"Hello, Bob!"}}'''
    want = "be609aee343fb3c4b28e1df9e632fca64fcfaede20f02e86244efddf30957bd2"
    for spelling in ("1", "1.0", '"1"', '"0x1"', "10e-1"):
        c, out = classify(mail % spelling)
        assert c == "accept" and out[0].hex() == want, (spelling, c)
    assert classify(mail % "-1")[0] == "reject" and classify(mail % "1.5")[0] == "reject"
    assert classify(mail % '"+1"') == ("either", classify(mail % "1")[1])
    assert classify(mail % "true")[0] == "reject" and classify(mail % str(2**256))[0] == "reject"
    assert classify(mail % "1.00000000000000001")[0] == "reject"
    assert classify((mail % "1").replace('"contents":"Hello, Bob!"', '"contents":"Hello, Bob!","x":1'))[0] == "reject"
    assert classify((mail % "1").replace('"Cow","wallet"', '"Cow","wallet2"'))[0] == "reject"
    assert classify((mail % "1").replace('"type":"Person"},{"name":"to"', '"type":"Persona"},{"name":"to"'))[0] == "reject"
