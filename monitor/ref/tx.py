"""Ethereum transaction encodings (legacy / EIP-155, EIP-2930, EIP-1559) from the
EIPs, over an abstract transaction (a dict of Python ints / bytes)."""
from . import rlp
from .keccak import keccak256

LEGACY, T2930, T1559 = "legacy", "eip2930", "eip1559"


def kind_of_keys(keys):
    if "maxPriorityFeePerGas" in keys or "maxFeePerGas" in keys:
        return T1559
    if "accessList" in keys:
        return T2930
    return LEGACY


def _al(tx):
    return [[a, list(slots)] for a, slots in tx.get("accessList") or []]


def _to(tx):
    return tx["to"] if tx.get("to") is not None else b""


def fields(tx):
    k = tx["kind"]
    if k == LEGACY:
        return [tx["nonce"], tx["gasPrice"], tx["gas"], _to(tx), tx["value"], tx["data"]]
    if k == T2930:
        return [tx["chainId"], tx["nonce"], tx["gasPrice"], tx["gas"], _to(tx), tx["value"], tx["data"], _al(tx)]
    if k == T1559:
        return [tx["chainId"], tx["nonce"], tx["maxPriorityFeePerGas"], tx["maxFeePerGas"], tx["gas"], _to(tx),
                tx["value"], tx["data"], _al(tx)]
    raise ValueError(k)


def _prefix(tx):
    return {LEGACY: b"", T2930: b"\x01", T1559: b"\x02"}[tx["kind"]]


def unsigned_payload(tx):
    f = fields(tx)
    if tx["kind"] == LEGACY and tx.get("chainId") is not None:
        f = f + [tx["chainId"], 0, 0]
    return _prefix(tx) + rlp.encode(f)


def signing_hash(tx):
    return keccak256(unsigned_payload(tx))


def legacy_v(chain_id, parity):
    return 27 + parity if chain_id is None else 35 + 2 * chain_id + parity


def signed_bytes(tx, r, s, parity):
    f = fields(tx)
    if tx["kind"] == LEGACY:
        f = f + [legacy_v(tx.get("chainId"), parity), r, s]
    else:
        f = f + [parity, r, s]
    return _prefix(tx) + rlp.encode(f)


class Malformed(Exception):
    pass


def decode_signed(raw):
    """Independent strict decoder of a signed transaction. Returns
    (tx, v_or_parity, r, s). Raises rlp.NonCanonical / Malformed."""
    raw = bytes(raw)
    if not raw:
        raise Malformed("empty")
    if raw[0] >= 0xC0:
        kind, body = LEGACY, raw
    elif raw[0] == 1:
        kind, body = T2930, raw[1:]
    elif raw[0] == 2:
        kind, body = T1559, raw[1:]
    else:
        raise Malformed("unknown type byte %#x" % raw[0])
    items = rlp.decode_strict(body)
    if not isinstance(items, list):
        raise Malformed("not a list")
    want = {LEGACY: 9, T2930: 11, T1559: 12}[kind]
    if len(items) != want:
        raise Malformed("%s: %d fields, want %d" % (kind, len(items), want))
    u = rlp.as_uint

    def to(b):
        if not isinstance(b, bytes) or len(b) not in (0, 20):
            raise Malformed("recipient is %r" % (b,))
        return b if b else None

    def data(b):
        if not isinstance(b, bytes):
            raise Malformed("data is a list")
        return b

    def al(x):
        if not isinstance(x, list):
            raise Malformed("access list is not a list")
        out = []
        for e in x:
            if not (isinstance(e, list) and len(e) == 2 and isinstance(e[0], bytes) and len(e[0]) == 20
                    and isinstance(e[1], list)):
                raise Malformed("bad access list entry")
            for sl in e[1]:
                if not (isinstance(sl, bytes) and len(sl) == 32):
                    raise Malformed("bad storage key")
            out.append((e[0], list(e[1])))
        return out

    if kind == LEGACY:
        tx = {"kind": kind, "nonce": u(items[0]), "gasPrice": u(items[1]), "gas": u(items[2]), "to": to(items[3]),
              "value": u(items[4]), "data": data(items[5])}
        tail = items[6:]
    elif kind == T2930:
        tx = {"kind": kind, "chainId": u(items[0]), "nonce": u(items[1]), "gasPrice": u(items[2]), "gas": u(items[3]),
              "to": to(items[4]), "value": u(items[5]), "data": data(items[6]), "accessList": al(items[7])}
        tail = items[8:]
    else:
        tx = {"kind": kind, "chainId": u(items[0]), "nonce": u(items[1]), "maxPriorityFeePerGas": u(items[2]),
              "maxFeePerGas": u(items[3]), "gas": u(items[4]), "to": to(items[5]), "value": u(items[6]),
              "data": data(items[7]), "accessList": al(items[8])}
        tail = items[9:]
    return tx, u(tail[0]), u(tail[1]), u(tail[2])


def same_tx(a, b):
    """Field-by-field equality of two abstract transactions of the same kind
    (chain id of a legacy transaction is not part of the signed field list)."""
    if a["kind"] != b["kind"]:
        return False
    keys = {LEGACY: ["nonce", "gasPrice", "gas", "to", "value", "data"],
            T2930: ["chainId", "nonce", "gasPrice", "gas", "to", "value", "data"],
            T1559: ["chainId", "nonce", "maxPriorityFeePerGas", "maxFeePerGas", "gas", "to", "value", "data"]}[a["kind"]]
    for k in keys:
        if (a.get(k) if k != "to" else (a.get(k) or None)) != (b.get(k) if k != "to" else (b.get(k) or None)):
            return False
    if a["kind"] != LEGACY:
        na = [(bytes(x), [bytes(s) for s in y]) for x, y in (a.get("accessList") or [])]
        nb = [(bytes(x), [bytes(s) for s in y]) for x, y in (b.get("accessList") or [])]
        if na != nb:
            return False
    return True


def selftest():
    from . import secp
    # EIP-155 worked example
    tx = {"kind": LEGACY, "chainId": 1, "nonce": 9, "gasPrice": 20 * 10**9, "gas": 21000,
          "to": bytes.fromhex("3535353535353535353535353535353535353535"), "value": 10**18, "data": b""}
    assert unsigned_payload(tx).hex() == ("ec098504a817c800825208943535353535353535353535353535353535353535"
                                           "880de0b6b3a764000080018080")
    h = signing_hash(tx)
    assert h.hex() == "daf5a779ae972f972197303d7b574746c7ef83eadac0f2791ad23db92e4c8e53"
    key = 0x4646464646464646464646464646464646464646464646464646464646464646
    r, s, par, _ = secp.sign_rfc6979(key, h)
    assert legacy_v(1, par) == 37
    assert r == 18515461264373351373200002665853028612451056578545711640558177340181847433846
    assert s == 46948507304638947509940763649030358759909902576025900602547168820602576006531
    raw = signed_bytes(tx, r, s, par)
    assert raw.hex() == ("f86c098504a817c800825208943535353535353535353535353535353535353535880de0b6b3a76400008025a028ef"
                         "61340bd939bc2195fe537567866003e1a15d3c71ff63e1590620aa636276a067cbe9d8997f761aecb703304b3800ccf5"
                         "55c9f3dc64214b297fb1966a3b6d83")
    d, v, r2, s2 = decode_signed(raw)
    assert same_tx(d, tx) and (v, r2, s2) == (37, r, s)
    # The repo's own signed fixtures (ganache key) for the three kinds
    gk = 0x4F3EDF983AC636A65A842CE7C78D9AA706D3B113BCE9C46F30D7D21715B23B1D
    base = {"nonce": 0, "gas": 21000, "to": bytes(20), "value": 0, "data": b""}
    cases = [
        (dict(base, kind=LEGACY, gasPrice=0, chainId=None),
         "f85f808082520894000000000000000000000000000000000000000080801ca00f1c0e95b7050ac3df5ac3b69a7d41e0b815da462fcd30954b1c37b58ca71c16a068dab467ad79359967a3df1bcfc17292a3839288d05274d0e3e391f8b508410b"),
        (dict(base, kind=LEGACY, gasPrice=0, chainId=1),
         "f85f8080825208940000000000000000000000000000000000000000808025a0c97442e361bf3940bec722b240c699de22302469756436bbcc5a150a93309b08a02fd3e68ed327dea3d085ec16a8589ebf7871e5a990669f67be82a70cd9dfb4f7"),
        (dict(base, kind=T2930, gasPrice=0, chainId=1, accessList=[]),
         "01f8610180808252089400000000000000000000000000000000000000008080c080a04366d11301b0a233d0f311f93083583ed316c2ebd7246ccd93f1a320b257fd65a02e3df28ccda84b829403a04f2d142416f01bdf7036dba12b66e4add64d59455e"),
        (dict(base, kind=T1559, maxPriorityFeePerGas=0, maxFeePerGas=0, chainId=1, accessList=[]),
         "02f862018080808252089400000000000000000000000000000000000000008080c001a0290dbdecbc884b4cb827015fe0cd7ac90df1a5634d52a2845c21afacca14b803a03e848dd1a342e5528beff99c42876cf091a68e2090dbbced5a5f7f392d3abcda"),
    ]
    for t, want in cases:
        r, s, par, _ = secp.sign_rfc6979(gk, signing_hash(t))
        assert signed_bytes(t, r, s, par).hex() == want, t["kind"]
    # access list fixture from the repo / EIP-2930
    al = [(bytes.fromhex("de0b295669a9fd93d5f28d9ec85e40f4cb697bae"), [(3).to_bytes(32, "big"), (7).to_bytes(32, "big")]),
          (bytes.fromhex("bb9bc244d798123fde783fcc1c72d3bb8c189413"), [])]
    assert rlp.encode([[a, sl] for a, sl in al]).hex() == (
        "f872f85994de0b295669a9fd93d5f28d9ec85e40f4cb697baef842a000000000000000000000000000000000000000000000000000"
        "00000000000003a00000000000000000000000000000000000000000000000000000000000000007d694bb9bc244d798123fde783f"
        "cc1c72d3bb8c189413c0")
