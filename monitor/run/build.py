"""Builds the op-server and the real CLI from the *current working tree* of the
repository (default /repo, override with VERIF_REPO for scratch copies)."""
import fcntl
import hashlib
import os
import shutil
import subprocess
import sys
import time

VERIF = os.path.dirname(os.path.dirname(os.path.dirname(os.path.abspath(__file__))))
BUILD = os.path.join(VERIF, ".build")


class BuildError(Exception):
    pass


def repo_path():
    return os.path.abspath(os.environ.get("VERIF_REPO") or "/repo")


def _key():
    r = repo_path()
    return "main" if r == "/repo" else "alt-" + hashlib.sha256(r.encode()).hexdigest()[:10]


def _env():
    env = dict(os.environ)
    env["CARGO_NET_OFFLINE"] = "true"
    env.pop("RUSTFLAGS", None)
    env.pop("RUSTC_BOOTSTRAP", None)
    env["RUST_BACKTRACE"] = "0"
    return env


class _Lock:
    def __init__(self, name):
        os.makedirs(BUILD, exist_ok=True)
        self.path = os.path.join(BUILD, name + ".lock")

    def __enter__(self):
        self.f = open(self.path, "w")
        fcntl.flock(self.f, fcntl.LOCK_EX)
        return self

    def __exit__(self, *a):
        fcntl.flock(self.f, fcntl.LOCK_UN)
        self.f.close()


def _run(cmd, cwd, env, what, timeout=1800):
    t = time.time()
    p = subprocess.run(cmd, cwd=cwd, env=env, stdout=subprocess.PIPE, stderr=subprocess.STDOUT, timeout=timeout)
    if p.returncode != 0:
        raise BuildError("%s failed (%s):\n%s" % (what, " ".join(cmd), p.stdout.decode(errors="replace")[-4000:]))
    return time.time() - t


def _sync_workspace(ws, manifest_name="Cargo.toml", nightly=False):
    """(Re)creates the generated driver workspace: sources copied from
    /verif/driver, manifest with the repository path substituted, lock file
    seeded from the repository's own Cargo.lock."""
    src = os.path.join(VERIF, "driver")
    os.makedirs(os.path.join(ws, "src"), exist_ok=True)

    def put(path, data):
        old = None
        if os.path.exists(path):
            with open(path, "rb") as f:
                old = f.read()
        if old != data:
            with open(path, "wb") as f:
                f.write(data)

    with open(os.path.join(src, "src", "main.rs"), "rb") as f:
        put(os.path.join(ws, "src", "main.rs"), f.read())
    with open(os.path.join(src, manifest_name), "rb") as f:
        man = f.read().decode()
    man = man.replace('path = "/repo"', 'path = "%s"' % repo_path())
    man = man.replace("@VERIF@", VERIF)
    put(os.path.join(ws, "Cargo.toml"), man.encode())
    # Lock file: start from the repository's, so the same dependency versions are
    # used; cargo appends the driver package itself (offline).
    repo_lock = os.path.join(repo_path(), "Cargo.lock")
    stamp = os.path.join(ws, ".lock-stamp")
    with open(repo_lock, "rb") as f:
        lock = f.read()
    h = hashlib.sha256(lock + man.encode()).hexdigest()
    old = open(stamp).read() if os.path.exists(stamp) else ""
    if old != h or not os.path.exists(os.path.join(ws, "Cargo.lock")):
        put(os.path.join(ws, "Cargo.lock"), lock)
        with open(stamp, "w") as f:
            f.write(h)


def _seed_target(target, main_name):
    """A scratch copy (VERIF_REPO) starts from a copy of the main target dir so that only hdwallet itself is recompiled."""
    main = os.path.join(BUILD, main_name)
    if not os.path.exists(target) and os.path.isdir(main) and main != target:
        tmp = target + ".seeding%d" % os.getpid()
        try:
            subprocess.run(["cp", "-a", "--reflink=auto", main, tmp], check=True, stdout=subprocess.DEVNULL, stderr=subprocess.DEVNULL)
            os.rename(tmp, target)
        except Exception:
            shutil.rmtree(tmp, ignore_errors=True)


def build_driver(profile, want_hooks=True):
    """Returns (binary path, hooks_enabled, seconds). profile: 'dev'|'release'."""
    assert profile in ("dev", "release")
    key = _key()
    ws = os.path.join(BUILD, "ws-" + key)
    target = os.path.join(BUILD, "target-driver-" + key)
    with _Lock("driver-" + key):
        _sync_workspace(ws)
        _seed_target(target, "target-driver-main")
        env = _env()
        base = ["cargo", "build", "--offline", "--target-dir", target]
        if profile == "release":
            base.append("--release")
        secs = 0.0
        hooks = False
        # optional feature sets, most capable first: a tree on which a hook or an optional helper no longer compiles still gets an
        # op-server for the main public API
        attempts = ([("hooks,wordscan", True), ("hooks", True)] if want_hooks else []) + [("wordscan", False), ("", False)]
        first_error = None
        for feats, with_hooks in attempts:
            try:
                secs += _run(base + (["--features", feats] if feats else []), ws, env, "op-server build (features: %s)" % (feats or "none"))
                hooks = with_hooks
                break
            except BuildError as e:
                sys.stderr.write("note: op-server build with features [%s] failed\n" % feats)
                first_error = first_error or e
        else:
            raise first_error
        out = os.path.join(target, "debug" if profile == "dev" else "release", "opserver")
        # copy so that a later rebuild (other feature set) cannot swap the binary under a running check
        dst = os.path.join(BUILD, "bin-" + key)
        os.makedirs(dst, exist_ok=True)
        final = os.path.join(dst, "opserver-%s-%s" % (profile, "hooks" if hooks else "nohooks"))
        tmp = final + ".tmp%d" % os.getpid()
        shutil.copy2(out, tmp)
        os.replace(tmp, final)
    return final, hooks, secs


def build_cli(profile):
    """Builds the real hdwallet binary from the working tree. Returns (path, seconds)."""
    assert profile in ("dev", "release")
    key = _key()
    target = os.path.join(BUILD, "target-cli-" + key)
    with _Lock("cli-" + key):
        _seed_target(target, "target-cli-main")
        env = _env()
        cmd = ["cargo", "build", "--offline", "--bin", "hdwallet", "--target-dir", target,
               "--manifest-path", os.path.join(repo_path(), "Cargo.toml")]
        if profile == "release":
            cmd.append("--release")
        secs = _run(cmd, repo_path(), env, "hdwallet CLI build (%s)" % profile)
        out = os.path.join(target, "debug" if profile == "dev" else "release", "hdwallet")
        dst = os.path.join(BUILD, "bin-" + key)
        os.makedirs(dst, exist_ok=True)
        final = os.path.join(dst, "hdwallet-%s" % profile)
        tmp = final + ".tmp%d" % os.getpid()
        shutil.copy2(out, tmp)
        os.replace(tmp, final)
    return final, secs


def build_keccak_tool():
    """Compiles the streaming C Keccak-256 reference (tools/keccak256.c). Returns the executable path."""
    src = os.path.join(VERIF, "tools", "keccak256.c")
    dst = os.path.join(BUILD, "keccak256")
    with _Lock("keccaktool"):
        if not os.path.exists(dst) or os.path.getmtime(dst) < os.path.getmtime(src):
            tmp = dst + ".tmp%d" % os.getpid()
            _run(["cc", "-O2", "-Wall", "-o", tmp, src], VERIF, _env(), "keccak tool build")
            os.replace(tmp, dst)
    return dst


def build_interposer():
    """Compiles the LD_PRELOAD entropy interposer. Returns the .so path."""
    src = os.path.join(VERIF, "interpose", "entropy.c")
    dst = os.path.join(BUILD, "libentropy_interpose.so")
    with _Lock("interpose"):
        if not os.path.exists(dst) or os.path.getmtime(dst) < os.path.getmtime(src):
            tmp = dst + ".tmp%d" % os.getpid()
            _run(["cc", "-O2", "-fPIC", "-shared", "-Wall", "-o", tmp, src, "-ldl", "-lpthread"], VERIF, _env(),
                 "interposer build")
            os.replace(tmp, dst)
    return dst
