"""Execution core: op-server client, CLI runner, case execution, verdicts."""
import hashlib
import json
import os
import random
import re
import select
import shutil
import signal
import subprocess
import tempfile
import threading
import time

from . import build

VERIF = build.VERIF
OUT = os.path.join(VERIF, "out")

ABNORMAL = ("panic", "crash", "hang")


STOP = None  # set by the engine in worker processes: shared flag "enough violations recorded, stop"


class HarnessError(Exception):
    """Something in the verification machinery (not the code under test) failed.
    Always mapped to INCONCLUSIVE, never to a violation."""


def rng_for(seed, prop, stream):
    h = hashlib.sha256(("%d|%s|%s" % (seed, prop, stream)).encode()).digest()
    return random.Random(int.from_bytes(h, "big"))


def h16(obj):
    return hashlib.sha256(json.dumps(obj, sort_keys=True, default=str).encode()).hexdigest()[:16]


# --------------------------------------------------------------------------- op-server client
def _cpu_seconds(pid):
    try:
        with open("/proc/%d/stat" % pid) as f:
            parts = f.read().rsplit(")", 1)[1].split()
        return (int(parts[11]) + int(parts[12])) / os.sysconf("SC_CLK_TCK")
    except Exception:
        return None


def _any_thread_runnable(pid):
    """True if some thread of the process is running or runnable (state R): starved on a loaded machine, not blocked."""
    try:
        for tid in os.listdir("/proc/%d/task" % pid):
            with open("/proc/%d/task/%s/stat" % (pid, tid)) as f:
                if f.read().rsplit(")", 1)[1].split()[0] == "R":
                    return True
    except Exception:
        return True  # cannot tell: never call it a hang
    return False


def _cpu_seconds_tree(pid):
    """CPU seconds of a process including all its threads (and strace children when wrapped)."""
    total = _cpu_seconds(pid)
    if total is None:
        return None
    try:
        for child in open("/proc/%d/task/%d/children" % (pid, pid)).read().split():
            c = _cpu_seconds(int(child))
            if c:
                total += c
    except Exception:
        pass
    return total


def vanity_cap(ndigits, threads=None):
    """Entropy-request cap that bounds a vanity search on logical steps: P(a correct search needs more candidates) < 1e-20.
    With two or more workers the losers keep requesting entropy between the winner's send and the process exit; the interposer
    adds CAP_SLACK requests per thread *it has seen* (about half a minute of scheduling delay at full speed), so neither a loaded
    machine nor a tool that chooses its own worker count can turn into an alarm. `threads` is accepted for old call sites."""
    return {0: 300, 1: 800, 2: 12000, 3: 190000}.get(ndigits, 190000 * 16 ** max(0, ndigits - 3))


CAP_SLACK = 20000


AMBIENT = [
    {},
    {"LANG": "C"},
    {"LANG": "en_US.UTF-8", "TERM": "xterm-256color", "COLUMNS": "40"},
    {"LANG": "ja_JP.UTF-8", "LC_ALL": "ja_JP.UTF-8", "LANGUAGE": "ja"},
    {"LANG": "tr_TR.UTF-8", "LC_ALL": "tr_TR.UTF-8", "TZ": "Asia/Kolkata"},
    {"LANG": "zh_CN.UTF-8", "LC_CTYPE": "zh_CN.UTF-8", "TERM": "dumb", "NO_COLOR": "1"},
    {"LC_ALL": "POSIX", "CLICOLOR_FORCE": "1", "RUST_LOG": "trace", "HOME": "/nonexistent"},
    {"LANG": "de_DE.ISO-8859-1", "LC_NUMERIC": "de_DE", "USER": "root", "SHELL": "/bin/sh", "COLUMNS": "300"},
    # variables named after options that have no environment form: they must be ignored
    {"ALLOW_MISSING_RELAY_PROTECTION": "true", "SIGNATURE_ONLY": "true", "MESSAGE_HASH": "true", "LENGTH": "15", "LANGUAGE": "english",
     "VANITY_THREADS": "1", "VANITY_PASSWORD": "decoy", "VANITY_ACCOUNT_INDEX": "3", "THREADS": "1", "INDEX": "5", "PATH_": "x"},
    {"ALLOW_MISSING_RELAY_PROTECTION": "1", "HDWALLET_MNEMONIC": "abandon", "HDWALLET_PASSWORD": "x", "HDWALLET_ACCOUNT_INDEX": "9", "SIGNATURE": "0x00",
     "VANITY_HD_PATH": "m/0", "VANITY_PREFIX": "0xff", "MNEMONIC_FILE": "/dev/null", "DATA": "-", "MESSAGE": "-", "TRANSACTION": "-"},
]


def ambient_env(n):
    """One of a few legal ambient environments (locale, terminal, home, ...). No property may depend on them."""
    return dict(AMBIENT[n % len(AMBIENT)])


def _rss_gb(pid):
    try:
        with open("/proc/%d/status" % pid) as f:
            for line in f:
                if line.startswith("VmRSS:"):
                    return int(line.split()[1]) / (1 << 20)
    except Exception:
        pass
    return 0.0


def child_setup(mem_gb=None, cpu_s=None):
    """preexec_fn for every process of the code under test: bounded address space (an unbounded-allocation defect must not
    take the sandbox down), bounded CPU time (SIGXCPU = decided on CPU steps, not wall-clock) and death with the parent."""
    def f():
        import ctypes
        import resource
        try:
            if mem_gb:
                resource.setrlimit(resource.RLIMIT_AS, (int(mem_gb * (1 << 30)), int(mem_gb * (1 << 30))))
            if cpu_s:
                resource.setrlimit(resource.RLIMIT_CPU, (int(cpu_s), int(cpu_s) + 5))
            resource.setrlimit(resource.RLIMIT_CORE, (0, 0))
            ctypes.CDLL("libc.so.6").prctl(1, 9)  # PR_SET_PDEATHSIG, SIGKILL
        except Exception:
            pass
    return f


RSS_LIMIT_GB = 6.0


class OpServer:
    CPU_LIMIT = 12.0      # CPU seconds one request may burn before it is "unbounded computation"
    WALL_LIMIT = 600.0    # wall-clock watchdog -> harness error (inconclusive), never a violation

    def __init__(self, path, extra_env=None, wrapper=None):
        self.path = path
        self.extra_env = extra_env or {}
        self.wrapper = wrapper or []
        self.p = None
        self.starts = 0

    def _start(self):
        env = {"PATH": os.environ.get("PATH", "/usr/bin:/bin"), "RUST_BACKTRACE": "0", "HOME": os.environ.get("HOME", "/root")}
        env.update(self.extra_env)
        sanitized = "ASAN_OPTIONS" in env or "TSAN_OPTIONS" in env or bool(self.wrapper)
        self.p = subprocess.Popen(self.wrapper + [self.path], stdin=subprocess.PIPE, stdout=subprocess.PIPE,
                                  stderr=subprocess.DEVNULL, env=env, bufsize=0,
                                  preexec_fn=child_setup(None if sanitized else 4))
        self.starts += 1
        self.buf = b""

    def close(self):
        if self.p is not None:
            try:
                self.p.stdin.close()
            except Exception:
                pass
            try:
                self.p.wait(timeout=5)
            except Exception:
                self.p.kill()
                self.p.wait()
            self.p = None

    def _kill(self):
        if self.p is not None:
            try:
                self.p.kill()
            except Exception:
                pass
            self.p.wait()
            self.p = None

    def _readline(self, cpu_limit):
        """Returns a line (bytes) or a string 'crash:<sig>' / 'hang'."""
        t0 = time.time()
        cpu0 = _cpu_seconds(self.p.pid) or 0.0
        fd = self.p.stdout.fileno()
        while True:
            i = self.buf.find(b"\n")
            if i >= 0:
                line, self.buf = self.buf[:i], self.buf[i + 1:]
                return line
            r, _, _ = select.select([fd], [], [], 1.0)
            if r:
                chunk = os.read(fd, 1 << 20)
                if not chunk:
                    rc = self.p.wait()
                    self.p = None
                    return "crash:%s" % (("signal %d" % -rc) if rc < 0 else ("exit %d" % rc))
                self.buf += chunk
                continue
            cpu = _cpu_seconds(self.p.pid)
            if cpu is not None and cpu - cpu0 > cpu_limit:
                self._kill()
                return "hang"
            if _rss_gb(self.p.pid) > RSS_LIMIT_GB:
                self._kill()
                return "crash:memory use beyond %.0f GiB on one request (unbounded allocation)" % RSS_LIMIT_GB
            if time.time() - t0 > self.WALL_LIMIT:
                self._kill()
                raise HarnessError("op-server made no progress for %ds wall-clock (watchdog)" % self.WALL_LIMIT)

    def call_many(self, reqs, cpu_limit=None):
        """Executes requests in order, returns the observations. A request that
        kills the server is recorded as {'crash': ...} and the server restarts."""
        cpu_limit = cpu_limit or self.CPU_LIMIT
        out = []
        i = 0
        n = len(reqs)
        hangs = 0
        enc = [json.dumps(r, separators=(",", ":")).encode() + b"\n" for r in reqs]
        while i < n:
            if hangs >= 3:
                # a tree that hangs on many inputs: three witnesses are enough, the rest of the batch is not executed
                out.extend({"skipped": "batch abandoned after 3 hangs"} for _ in range(n - i))
                break
            if self.p is None:
                self._start()
            # pipeline a window whose total size stays below the pipe capacity
            j = i
            size = 0
            while j < n and (j == i or (size + len(enc[j]) <= 32768 and j - i < 64)):
                size += len(enc[j])
                j += 1
            try:
                self.p.stdin.write(b"".join(enc[i:j]))
                self.p.stdin.flush()
            except (BrokenPipeError, OSError):
                pass
            k = i
            while k < j:
                line = self._readline(cpu_limit)
                if isinstance(line, str):
                    if line == "hang":
                        hangs += 1
                        out.append({"hang": "more than %.0fs of CPU on one request" % cpu_limit})
                    else:
                        out.append({"crash": line[6:]})
                    k += 1
                    break
                try:
                    out.append(json.loads(line))
                except Exception as e:
                    raise HarnessError("unparseable op-server output: %r (%s)" % (line[:200], e))
                k += 1
            if k < j:
                # the server died / was killed: anything after k in the window was lost -> resend
                self._kill()
            i = k
        for o in out:
            if "panic" in o and isinstance(o["panic"], str) and len(o["panic"]) > 400:
                o["panic"] = o["panic"][:200] + " ... " + o["panic"][-150:]
        return out

    def call(self, req, cpu_limit=None):
        return self.call_many([req], cpu_limit)[0]


# --------------------------------------------------------------------------- CLI runner
def parse_entropy_log(path):
    recs = []
    if not path or not os.path.exists(path):
        return recs
    with open(path) as f:
        for line in f:
            p = line.split()
            if len(p) != 6:
                continue
            recs.append({"tag": p[0], "seq": int(p[1]), "thread": int(p[2]), "len": int(p[3]), "ret": int(p[4]),
                         "bytes": None if p[5] == "-" else p[5]})
    return recs


_RE_GETRANDOM = re.compile(r'^(\d+)\s+getrandom\("((?:\\x[0-9a-f]{2})*)"(\.\.\.)?, (\d+), ([^)]*)\)\s+= (-?\d+)')
_RE_OPEN = re.compile(r'^(\d+)\s+openat\([^,]+, "((?:\\x[0-9a-f]{2})*)"[^)]*\)\s+= (\d+)')
_RE_READ = re.compile(r'^(\d+)\s+read\((\d+), "((?:\\x[0-9a-f]{2})*)"(\.\.\.)?, (\d+)\)\s+= (-?\d+)')


def _unx(s):
    return bytes(int(x, 16) for x in s.split("\\x")[1:])


def parse_strace(path):
    """Kernel-boundary view of the random sources: getrandom(2) calls and reads from /dev/*random."""
    out = []
    rfds = set()
    if not os.path.exists(path):
        return out
    with open(path, errors="replace") as f:
        for line in f:
            m = _RE_GETRANDOM.match(line)
            if m:
                out.append({"src": "getrandom", "tid": int(m.group(1)), "bytes": _unx(m.group(2)).hex(), "len": int(m.group(4)),
                            "flags": m.group(5), "ret": int(m.group(6)), "truncated": bool(m.group(3))})
                continue
            m = _RE_OPEN.match(line)
            if m:
                name = _unx(m.group(2)).decode("latin1")
                if name in ("/dev/urandom", "/dev/random"):
                    rfds.add(m.group(3))
                continue
            m = _RE_READ.match(line)
            if m and m.group(2) in rfds:
                out.append({"src": "devrandom", "tid": int(m.group(1)), "bytes": _unx(m.group(3)).hex(), "len": int(m.group(5)),
                            "flags": "", "ret": int(m.group(6)), "truncated": bool(m.group(4))})
    return out


class Cli:
    def __init__(self, path, scratch, interposer=None, wrapper=None, extra_env=None):
        self.path = path
        self.scratch = scratch
        self.interposer = interposer
        self.wrapper = wrapper or []
        self.extra_env = extra_env or {}
        self.n = 0
        os.makedirs(scratch, exist_ok=True)

    def run(self, spec):
        """spec: {argv:[...], env:{...}, stdin_hex:str|None, files:{name: hex}, ent:{MODE,SEED,HEX,FAIL_AT,FAIL_FROM,CAP,DELAY,log:bool},
        timeout: seconds}. '@FILE:name@' in argv is replaced by the path of the materialised file.
        Returns {exit|signal|hang|timeout, stdout_hex, stdout, stderr, entropy:[...]}"""
        files = spec.get("files") or {}
        if len(files) == 1 and not self.wrapper and spec.get("fifo") is not False and not spec.get("strace"):
            (name, hx), = files.items()
            refs = sum(a.count("@FILE:%s@" % name) for a in spec["argv"] if isinstance(a, str))
            pick = int(hashlib.sha256(b"file-delivery" + repr(spec.get("argv")).encode() + hx[:64].encode()).hexdigest()[:4], 16) % 12
            if refs == 1 and 2 <= len(hx) // 2 <= (1 << 20) and (pick == 0 or spec.get("fifo")):
                # The input file is a named pipe (what `cmd <(producer)` gives a tool), fed in two pieces with a pause. Only a
                # SUCCESSFUL run is judged on it - its output must be the result for the bytes supplied; a tool may refuse or be
                # unable to read a non-regular file (no property speaks about that), so any other outcome is re-run on a regular file.
                obs = self._run_once(spec, fifo=True)
                if obs.get("exit") == 0:
                    obs["file_delivery"] = "named-pipe"
                    return obs
                obs = self._run_once(spec)
                obs["file_delivery"] = "regular-file-after-named-pipe-run-did-not-succeed"
                return obs
        return self._run_once(spec)

    def _run_once(self, spec, fifo=False):
        self.n += 1
        d = os.path.join(self.scratch, "c%d" % self.n)
        os.makedirs(d, exist_ok=True)
        fifo_done = threading.Event()
        try:
            paths = {}
            fifo_feeds = []
            for name, hx in (spec.get("files") or {}).items():
                pth = os.path.join(d, name)
                if fifo:
                    os.mkfifo(pth)
                    fifo_feeds.append((pth, bytes.fromhex(hx)))
                else:
                    with open(pth, "wb") as f:
                        f.write(bytes.fromhex(hx))
                paths[name] = pth
            argv = []
            for a in spec["argv"]:
                for name, pth in paths.items():
                    a = a.replace("@FILE:%s@" % name, pth)
                argv.append(a)
            # MALLOC_ARENA_MAX: glibc reserves 64 MiB of address space per thread arena; at -j 64 that alone reaches the 4 GiB
            # address-space guard below and thread creation then fails with EAGAIN (seen once in 4000 runs). Allocator tuning only.
            env = {"PATH": "/usr/bin:/bin", "RUST_BACKTRACE": "0", "HOME": d, "MALLOC_ARENA_MAX": "4"}
            # ambient environment chosen from the command line itself (so a replay reproduces it)
            env.update(ambient_env(int(hashlib.sha256(repr(spec.get("argv")).encode()).hexdigest()[:6], 16)))
            env.update(self.extra_env)
            for k, v in (spec.get("env") or {}).items():
                env[k] = v
            ent = spec.get("ent")
            logpath = None
            if ent is not None:
                if not self.interposer:
                    raise HarnessError("entropy interposer requested but not built")
                env["LD_PRELOAD"] = self.interposer
                logpath = os.path.join(d, "entropy.log")
                env["VERIF_ENT_LOG"] = logpath
                for k in ("MODE", "SEED", "HEX", "FAIL_AT", "FAIL_FROM", "CAP", "CAP_SLACK", "DELAY", "ERRNO", "POSTFAIL_DELAY"):
                    if ent.get(k) is not None:
                        env["VERIF_ENT_" + k] = str(ent[k])
                if ent.get("CAP") is not None and ent.get("CAP_SLACK") is None:
                    env["VERIF_ENT_CAP_SLACK"] = str(CAP_SLACK)
            stdin = bytes.fromhex(spec["stdin_hex"]) if spec.get("stdin_hex") is not None else b""
            # environment values may be arbitrary bytes (invalid UTF-8 workloads)
            benv = {}
            for k, v in env.items():
                benv[k.encode()] = v if isinstance(v, bytes) else v.encode("utf-8", "surrogateescape")
            bargv = [a if isinstance(a, bytes) else a.encode("utf-8", "surrogateescape") for a in argv]
            timeout = spec.get("timeout", 120)
            t0 = time.time()
            wrapper = list(self.wrapper)
            strace_out = None
            if spec.get("strace"):
                strace_out = os.path.join(d, "strace.out")
                wrapper = ["strace", "-f", "-qq", "-xx", "-s", "400", "-e", "trace=getrandom,openat,read", "-o", strace_out] + wrapper
            sanitized = bool(wrapper) or any(k in env for k in ("ASAN_OPTIONS", "TSAN_OPTIONS"))
            # CPU bound: ordinary commands finish in milliseconds; 60 s of CPU on one command is unbounded computation. Vanity searches
            # are bounded logically by the entropy-request cap instead and get a large CPU allowance.
            cpu_s = spec.get("cpu_limit", 900 if ent is not None else 60) * (20 if sanitized else 1)
            # stdin is a pipe fed by a writer thread. (Popen.communicate(input, timeout) cannot be used: after a TimeoutExpired a
            # retry no longer sends the rest of the input nor closes stdin - CPython registers stdin for writing only when the
            # *argument* is given and refuses the argument on a retry - so a child that had not consumed everything within the
            # first poll interval would wait for ever and look like a hang.)
            rfd, wfd = os.pipe()
            try:
                p = subprocess.Popen([w.encode() for w in wrapper] + [self.path.encode()] + bargv, stdin=rfd,
                                     stdout=subprocess.PIPE, stderr=subprocess.PIPE, env=benv, cwd=d,
                                     preexec_fn=child_setup(None if sanitized else 4, cpu_s))
            except Exception:
                os.close(rfd)
                os.close(wfd)
                raise
            os.close(rfd)

            # Delivery schedule of standard input, chosen from the command line and the input itself (so a replay reproduces it):
            # a pipe may hand the reader its data in any number of pieces, and a reader that trusts one read() to return
            # everything is only exposed when the writer pauses. 0 = as fast as the pipe takes it; 1 = first byte, pause, rest;
            # 2 = 4 KiB pieces with short pauses (first 48 pieces); 3 = split in the middle with a pause; 4 = pause before the last byte.
            sched = int(hashlib.sha256(b"stdin-schedule" + repr(spec.get("argv")).encode() + stdin[:64]).hexdigest()[:4], 16) % 5
            if spec.get("stdin_schedule") is not None:
                sched = spec["stdin_schedule"]
            cuts = []
            if len(stdin) >= 2:
                if sched == 1:
                    cuts = [1]
                elif sched == 2:
                    cuts = list(range(4096, min(len(stdin), 48 * 4096), 4096))
                elif sched == 3:
                    cuts = [len(stdin) // 2]
                elif sched == 4:
                    cuts = [len(stdin) - 1]
            obs_sched = {"schedule": sched, "pieces": len(cuts) + 1}

            def _feed(fd=wfd, data=stdin, cuts=cuts):
                try:
                    view = memoryview(data)
                    pos = 0
                    for c in cuts:
                        piece = view[pos:c]
                        while len(piece):
                            n = os.write(fd, piece[:1 << 16])
                            piece = piece[n:]
                        pos = c
                        time.sleep(0.004 if len(cuts) < 4 else 0.001)
                    view = view[pos:]
                    while len(view):
                        n = os.write(fd, view[:1 << 16])
                        view = view[n:]
                except OSError:
                    pass  # the child exited or closed its stdin without reading everything
                finally:
                    try:
                        os.close(fd)
                    except OSError:
                        pass
            feeder = threading.Thread(target=_feed, daemon=True)
            feeder.start()

            def _feed_fifo(pth, data):
                import errno
                import fcntl
                fd = None
                while fd is None and not fifo_done.is_set():
                    try:
                        fd = os.open(pth, os.O_WRONLY | os.O_NONBLOCK)
                    except OSError as e:
                        if e.errno not in (errno.ENXIO, errno.ENOENT):
                            return
                        time.sleep(0.002)
                if fd is None:
                    return
                try:
                    fcntl.fcntl(fd, fcntl.F_SETFL, fcntl.fcntl(fd, fcntl.F_GETFL) & ~os.O_NONBLOCK)
                    view = memoryview(data)
                    cut = len(view) // 2
                    for piece in (view[:cut], view[cut:]):
                        while len(piece):
                            n = os.write(fd, piece[:1 << 16])
                            piece = piece[n:]
                        time.sleep(0.004)
                except OSError:
                    pass
                finally:
                    try:
                        os.close(fd)
                    except OSError:
                        pass
            for pth, data in fifo_feeds:
                threading.Thread(target=_feed_fifo, args=(pth, data), daemon=True).start()
            obs = {}
            # Termination is not decided on wall-clock: a process that is alive but has made no CPU progress for
            # STALL seconds is blocked ("hang"); one that is still computing when the generous watchdog fires is
            # "timeout" (inconclusive, never a violation).
            STALL = 20.0
            deadline = t0 + timeout
            last_cpu, last_change = None, time.time()
            first = True
            while True:
                try:
                    so, se = p.communicate(timeout=2.0)
                    rc = p.returncode
                    if rc < 0:
                        obs["signal"] = -rc
                    else:
                        obs["exit"] = rc
                    break
                except subprocess.TimeoutExpired:
                    first = False
                    now = time.time()
                    cpu = _cpu_seconds_tree(p.pid)
                    if last_cpu is None or cpu is None or cpu - last_cpu > 0.02 or _any_thread_runnable(p.pid):
                        last_cpu, last_change = cpu, now
                    if STOP is not None and STOP.value:
                        # enough violations were already recorded in this run: the verdict is decided, this case is not judged
                        p.kill()
                        so, se = p.communicate()
                        obs["skipped"] = "run stopping after enough violations"
                        break
                    if _rss_gb(p.pid) > RSS_LIMIT_GB:
                        p.kill()
                        so, se = p.communicate()
                        obs["signal"] = 9
                        obs["memory"] = "memory use beyond %.0f GiB (unbounded allocation)" % RSS_LIMIT_GB
                        break
                    if now - last_change >= STALL:
                        p.kill()
                        so, se = p.communicate()
                        obs["hang"] = "alive, blocked, no CPU progress for %ds" % STALL
                        break
                    if now >= deadline:
                        p.kill()
                        so, se = p.communicate()
                        obs["timeout"] = "still computing after %ds wall-clock" % timeout
                        break
            if obs.get("exit") == 101 and b"failed to spawn thread" in se and (b"code: 11" in se or b"Resource temporarily unavailable" in se):
                # the operating system refused to create a thread (EAGAIN: task / memory limits of an overloaded machine): an
                # environment condition, not an input - the case is not judged
                obs["skipped"] = "environment: thread creation refused by the OS (EAGAIN)"
            obs["stdout_hex"] = so.hex() if len(so) <= (1 << 22) else None
            obs["stdout_len"] = len(so)
            obs["stdout_sha"] = hashlib.sha256(so).hexdigest()
            obs["stdout"] = so[:1 << 16].decode("utf-8", "replace")
            obs["stderr"] = se[-600:].decode("utf-8", "replace")
            obs["wall"] = round(time.time() - t0, 3)
            if stdin:
                obs["stdin_delivery"] = obs_sched
            if "__raw_stdout" in spec:
                obs["_raw"] = so
            if logpath:
                obs["entropy"] = parse_entropy_log(logpath)
            if strace_out:
                obs["syscalls"] = parse_strace(strace_out)
            return obs
        finally:
            fifo_done.set()
            shutil.rmtree(d, ignore_errors=True)


def attribute_entropy(ent_hex, served):
    """Which requests served these entropy bytes? served: successful entropy records in log order ({thread, seq, bytes}).
    The bytes may be one whole buffer, a byte-aligned slice of one buffer, or a slice of the concatenation of consecutive
    buffers served to ONE thread (a tool may ask for more than it needs or fetch in several requests; what counts is that
    every byte was returned by the source). Returns {thread, first, last, count} (indices into that thread's requests) or None."""
    by_thread = {}
    for r in served:
        by_thread.setdefault(r.get("thread", 0), []).append(r)
    for t, recs in by_thread.items():
        stream = "".join(r["bytes"] for r in recs)
        i = stream.find(ent_hex)
        while i >= 0 and i % 2:
            i = stream.find(ent_hex, i + 1)
        if i < 0:
            continue
        # map the hex offsets back to request indices
        pos, first, last = 0, None, None
        for k, r in enumerate(recs):
            end = pos + len(r["bytes"])
            if first is None and i < end:
                first = k
            if i + len(ent_hex) <= end:
                last = k
                break
            pos = end
        last = last if last is not None else len(recs) - 1
        return {"thread": t, "first": first, "last": last, "count": len(recs), "seq_first": recs[first].get("seq"), "seq_last": recs[last].get("seq")}
    return None


# --------------------------------------------------------------------------- verdicts
class V:
    """Result of judging one case."""
    __slots__ = ("buckets", "viol", "nontrivial", "note")

    def __init__(self, buckets=(), viol=None, nontrivial=True):
        self.buckets = list(buckets)
        self.viol = list(viol or [])
        self.nontrivial = nontrivial

    def bucket(self, b):
        self.buckets.append(b)
        return self

    def bad(self, sig, msg):
        self.viol.append((sig, msg))
        return self


def abnormal(obs):
    """'panic: ...' / 'crash: ...' / 'hang: ...' if the observation is not a normal return."""
    for k in ABNORMAL:
        if k in obs:
            return "%s: %s" % (k, str(obs[k])[:300])
    if "signal" in obs:
        if obs["signal"] == 24:
            return "unbounded computation (CPU limit reached, SIGXCPU)"
        if obs.get("memory"):
            return "abort: %s" % obs["memory"]
        return "signal %d" % obs["signal"]
    if obs.get("exit") == 101:
        return "panic (exit 101): %s" % obs.get("stderr", "")[-300:]
    if obs.get("exit") == 97:
        return "unbounded computation (entropy-request cap reached)"
    return None


def cli_exit_class(obs):
    if "exit" in obs:
        return {0: "ok", 2: "usage", 255: "error", 101: "panic", 97: "cap"}.get(obs["exit"], "exit%d" % obs["exit"])
    if "signal" in obs:
        return "signal"
    if "hang" in obs:
        return "hang"
    return "timeout"
