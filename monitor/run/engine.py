"""Runs one property monitor: build, shard the workload over a process pool,
execute cases against the real code, judge, aggregate, write evidence."""
import collections
import importlib
import json
import multiprocessing
import os
import shutil
import sys
import time
import traceback

from . import build, core
from .core import HarnessError, V

VERIF = build.VERIF
EVIDENCE_DIR = os.path.join(VERIF, "evidence")
KNOWN = os.path.join(VERIF, "known_findings.json")

_CTX = None
_HANGS = None  # shared counter of hang observations in this run (multiprocessing.Value)
MAX_RUN_HANGS = 12


class Ctx:
    """Per-process execution context (lazily started servers)."""

    def __init__(self, bins, run_dir):
        self.bins = bins
        self.run_dir = run_dir
        self.servers = {}
        self.clis = {}

    def server(self, profile):
        s = self.servers.get(profile)
        if s is None:
            path = self.bins.get("lib-" + profile)
            if not path:
                raise HarnessError("op-server for profile %s was not built" % profile)
            # each worker gives its servers another ambient environment: nothing in the properties may depend on it
            s = core.OpServer(path, core.ambient_env(os.getpid() + (0 if profile == "dev" else 1)))
            self.servers[profile] = s
        return s

    def cli(self, profile):
        c = self.clis.get(profile)
        if c is None:
            path = self.bins.get("cli-" + profile)
            if not path:
                raise HarnessError("CLI for profile %s was not built" % profile)
            c = core.Cli(path, os.path.join(self.run_dir, "w%d-%s" % (os.getpid(), profile)), self.bins.get("interposer"))
            self.clis[profile] = c
        return c

    def close(self):
        for s in self.servers.values():
            s.close()
        self.servers = {}


def _subst(value, prev):
    """Replace '@OUT:k@' (stripped stdout of step k) in argv / env / stdin."""
    if isinstance(value, str) and "@OUT:" in value:
        for k, o in enumerate(prev):
            value = value.replace("@OUT:%d@" % k, (o.get("stdout") or "").strip())
    return value


def execute_case(ctx, case):
    obs = []
    for step in case["steps"]:
        profile = step.get("profile") or case.get("profile") or "release"
        if "lib" in step:
            obs.append(ctx.server(profile).call(step["lib"], step.get("cpu_limit")))
        else:
            spec = dict(step["cli"])
            spec["argv"] = [_subst(a, obs) for a in spec["argv"]]
            if spec.get("env"):
                spec["env"] = {k: _subst(v, obs) for k, v in spec["env"].items()}
            if spec.get("stdin_from") is not None:
                spec["stdin_hex"] = obs[spec["stdin_from"]].get("stdout_hex") or ""
            obs.append(ctx.cli(profile).run(spec))
    return obs


def execute_cases(ctx, cases):
    """Executes a list of cases; single-step library cases are pipelined."""
    results = [None] * len(cases)
    batches = collections.defaultdict(list)
    for i, c in enumerate(cases):
        if len(c["steps"]) == 1 and "lib" in c["steps"][0] and not c["steps"][0].get("cpu_limit"):
            profile = c["steps"][0].get("profile") or c.get("profile") or "release"
            batches[profile].append(i)
        else:
            results[i] = execute_case(ctx, c)
    for profile, idxs in batches.items():
        srv = ctx.server(profile)
        obs = srv.call_many([cases[i]["steps"][0]["lib"] for i in idxs])
        for i, o in zip(idxs, obs):
            results[i] = [o]
    return results


def judge_case(mod, case, obs):
    """Applies the property's judge plus the generic 'abnormal outcome' rule."""
    for o in obs:
        if "harness_error" in o:
            raise HarnessError("op-server rejected a request: %s (%s)" % (o["harness_error"], json.dumps(case)[:300]))
    fn = mod.JUDGES[case["j"]]
    v = fn(case, obs)
    for o in obs:
        sd = o.get("stdin_delivery")
        if sd:
            # observation class only: how the standard input of this execution was delivered (see core.Cli.run)
            v.bucket("stdin-delivered-in-%s" % ("one-piece" if sd["pieces"] == 1 else "several-pieces-with-pauses"))
        if o.get("file_delivery"):
            v.bucket("input-file-" + o["file_delivery"])
    if any("timeout" in o for o in obs):
        # still computing when the generous wall-clock watchdog fired: inconclusive for this case, never a violation
        v.bucket("watchdog-timeout-inconclusive")
        v.nontrivial = False
    if not getattr(fn, "handles_abnormal", False):
        for k, o in enumerate(obs):
            a = core.abnormal(o)
            if a:
                cls = (case.get("x") or {}).get("cls", case["j"])
                v.bad("%s/%s/%s" % (mod.ID, cls, a.split(":")[0].split(" ")[0]), "step %d ended abnormally: %s" % (k, a))
    return v


# Fail-fast budget: a tree that breaks the property on very many inputs (or on inputs that each take minutes, e.g. a vanity
# search that can no longer match) is reported after this many violating cases / seconds spent in violating cases per shard,
# instead of after hours. Violations listed as open known findings never count, so the unchanged tree is explored in full.
MAX_VIOL_CASES_PER_SHARD = 60
MAX_VIOL_WALL_PER_SHARD = 90.0
_STOP = None
_KNOWN_OPEN = frozenset()


def _worker_init(bins, run_dir, hangs=None, stop=None, known_open=()):
    global _CTX, _HANGS, _STOP, _KNOWN_OPEN
    _HANGS = hangs
    _STOP = stop
    _KNOWN_OPEN = frozenset(known_open)
    core.STOP = stop
    _CTX = Ctx(bins, run_dir)
    import atexit
    atexit.register(_CTX.close)


def _slim(o, limit=600):
    """Trim an observation / case for samples and replay files."""
    s = json.dumps(o, default=str)
    if len(s) <= limit:
        return o
    return {"_truncated": s[:limit] + "..."}


def _run_shard(args):
    modname, shard, tier, seed = args
    t0 = time.time()
    res = {"shard": shard.get("name"), "evaluations": 0, "buckets": collections.Counter(), "distinct": set(),
           "violations": [], "vcount": collections.Counter(), "samples": [], "error": None, "exhaustive": []}
    try:
        mod = importlib.import_module(modname)
        rng = core.rng_for(seed, mod.ID, "shard:" + str(shard.get("name")))
        chunk = []
        if _HANGS is not None and _HANGS.value >= MAX_RUN_HANGS:
            # the tree hangs on many inputs and enough witnesses were recorded: the verdict is already "violated"
            res["buckets"]["shard-skipped-after-%d-hangs-in-this-run" % MAX_RUN_HANGS] += 1
            res["wall"] = 0.0
            return res

        if _STOP is not None and _STOP.value:
            res["buckets"]["shard-skipped-after-enough-violations-in-this-run"] += 1
            res["wall"] = 0.0
            return res

        hangs = [0]
        vbudget = [0, 0.0]

        def flush():
            if not chunk:
                return
            obs_all = execute_cases(_CTX, chunk)
            for case, obs in zip(chunk, obs_all):
                nh = sum(1 for o in obs if "hang" in o or "memory" in o or o.get("signal") == 24)
                hangs[0] += nh
                if nh and _HANGS is not None:
                    with _HANGS.get_lock():
                        _HANGS.value += nh
                if any("skipped" in o for o in obs):
                    res["buckets"]["case-not-judged-" + ("environment" if any(str(o.get("skipped", "")).startswith("environment") for o in obs) else "run-stopping-or-batch-abandoned")] += 1
                    continue
                v = judge_case(mod, case, obs)
                res["evaluations"] += 1
                for b in v.buckets:
                    res["buckets"][b] += 1
                if v.nontrivial:
                    res["distinct"].add(core.h16([case["j"], case["steps"]]))
                if any(sig not in _KNOWN_OPEN for sig, _ in v.viol):
                    vbudget[0] += 1
                    vbudget[1] += sum(float(o.get("wall") or 0.0) for o in obs)
                for sig, msg in v.viol:
                    res["vcount"][sig] += 1
                    if res["vcount"][sig] <= 2:
                        res["violations"].append({"sig": sig, "msg": msg, "case": case, "obs": [_slim(o, 3000) for o in obs]})
                if len(res["samples"]) < 2 and v.nontrivial and not v.viol:
                    res["samples"].append({"case": _slim(case, 500), "obs": [_slim(o, 400) for o in obs], "buckets": v.buckets[:6]})
            del chunk[:]

        for case in mod.gen(shard, rng, tier):
            chunk.append(case)
            # cases that may block (process runs) are flushed in small groups so that a tree that hangs on many inputs is
            # reported after a few witnesses instead of after hours
            if len(chunk) >= (200 if all("lib" in s for s in case["steps"]) else 8):
                flush()
            if hangs[0] >= 3:
                res["buckets"]["shard-stopped-after-3-hangs"] += 1
                break
            if vbudget[0] >= MAX_VIOL_CASES_PER_SHARD or vbudget[1] >= MAX_VIOL_WALL_PER_SHARD:
                res["buckets"]["shard-stopped-after-enough-violations"] += 1
                if _STOP is not None:
                    _STOP.value = 1
                break
            if _STOP is not None and _STOP.value:
                res["buckets"]["shard-stopped-after-enough-violations-in-this-run"] += 1
                del chunk[:]
                break
        flush()
        if shard.get("exhaustive"):
            res["exhaustive"].append(shard["exhaustive"])
    except HarnessError as e:
        res["error"] = "harness: %s" % e
    except Exception:
        res["error"] = "harness exception: " + traceback.format_exc()[-1500:]
    res["wall"] = time.time() - t0
    return res


def selftest_oracles():
    from ..ref import keccak, secp, bip39, eth, rlp, tx, eip712, jsonnum
    for m in (keccak, secp, bip39, eth, rlp, tx, eip712, jsonnum):
        m.selftest()


def load_known():
    if not os.path.exists(KNOWN):
        return []
    with open(KNOWN) as f:
        return json.load(f).get("findings", [])


def _build_all(mod):
    bins = {}
    notes = {}
    needs = getattr(mod, "NEEDS", {"lib": ["dev", "release"]})
    for p in needs.get("lib", []):
        path, hooks, secs = build.build_driver(p)
        bins["lib-" + p] = path
        notes["lib-" + p] = {"hooks": hooks, "build_s": round(secs, 1)}
    for p in needs.get("cli", []):
        path, secs = build.build_cli(p)
        bins["cli-" + p] = path
        notes["cli-" + p] = {"build_s": round(secs, 1)}
    if needs.get("interposer"):
        bins["interposer"] = build.build_interposer()
    return bins, notes


def run(prop, tier="quick", seed=0, replay=None, jobs=None):
    t0 = time.time()
    modname = "monitor.props.%s" % prop.lower()
    try:
        mod = importlib.import_module(modname)
    except ImportError as e:
        print("INCONCLUSIVE property=%s reason=no monitor module (%s)" % (prop, e))
        return 2
    pid = mod.ID
    run_dir = os.path.join(core.OUT, "%s-%d" % (pid, os.getpid()))
    os.makedirs(run_dir, exist_ok=True)
    try:
        try:
            selftest_oracles()
        except Exception:
            print("INCONCLUSIVE property=%s reason=oracle self-test failed\n%s" % (pid, traceback.format_exc()[-800:]))
            return 2
        try:
            bins, build_notes = _build_all(mod)
        except build.BuildError as e:
            print("INCONCLUSIVE property=%s reason=build of the working tree failed\n%s" % (pid, str(e)[-3000:]))
            return 2

        if replay:
            return _replay(mod, bins, run_dir, replay)

        shards = mod.shards(tier, seed)
        jobs = jobs or int(os.environ.get("VERIF_JOBS", "16"))
        results = []
        mp = multiprocessing.get_context("fork")
        hang_counter = mp.Value("i", 0)
        stop = mp.Value("i", 0)
        known_open = [f["signature"] for f in load_known() if f.get("property") == pid and f.get("status") == "open"]
        with mp.Pool(min(jobs, max(1, len(shards))), _worker_init, (bins, run_dir, hang_counter, stop, known_open)) as pool:
            for r in pool.imap_unordered(_run_shard, [(modname, s, tier, seed) for s in shards]):
                results.append(r)

        extra = {}
        extra_viol = []
        errors = [r["error"] for r in results if r["error"]]
        core.STOP = None
        if hasattr(mod, "extra_phases") and not errors and not stop.value:
            try:
                ctx = Ctx(bins, run_dir)
                extra, extra_viol = mod.extra_phases(ctx, tier, seed)
                ctx.close()
            except HarnessError as e:
                errors.append("harness (extra phase): %s" % e)
            except build.BuildError as e:
                errors.append("build (extra phase): %s" % str(e)[-1500:])

        return _finish(mod, tier, seed, results, extra, extra_viol, errors, build_notes, t0)
    finally:
        shutil.rmtree(run_dir, ignore_errors=True)


def _finish(mod, tier, seed, results, extra, extra_viol, errors, build_notes, t0):
    pid = mod.ID
    evaluations = sum(r["evaluations"] for r in results)
    buckets = collections.Counter()
    distinct = set()
    vcount = collections.Counter()
    viol_by_sig = {}
    samples = []
    exhaustive = []
    for r in results:
        buckets.update(r["buckets"])
        distinct |= r["distinct"]
        vcount.update(r["vcount"])
        for v in r["violations"]:
            viol_by_sig.setdefault(v["sig"], v)
        for s in r["samples"]:
            if len(samples) < 6:
                samples.append(s)
        exhaustive += r["exhaustive"]
    for v in extra_viol:
        vcount[v["sig"]] += 1
        viol_by_sig.setdefault(v["sig"], v)
    for k, n in (extra.get("buckets") or {}).items():
        buckets[k] += n
    evaluations += int(extra.get("evaluations", 0))

    known = [f for f in load_known() if f.get("property") == pid]
    open_known = {f["signature"]: f for f in known if f.get("status") == "open"}
    known_hit = []
    new_viol = []
    for sig in sorted(viol_by_sig):
        if sig in open_known:
            known_hit.append(sig)
        else:
            new_viol.append(sig)

    required = list(getattr(mod, "REQUIRED", []))
    if callable(required):
        required = required(tier)
    # hook-based observation classes are optional extras: when the tree does not build with the hook feature the checks
    # fall back to the public API and the hook classes are not required
    missing = [b for b in required if buckets.get(b, 0) == 0 and not (b.startswith("hook-") and buckets.get("hook-unavailable"))
               and not (b.startswith("opt-") and buckets.get("opt-unavailable"))]
    if hasattr(mod, "aggregate_requirements"):
        missing += list(mod.aggregate_requirements(buckets, tier))

    os.makedirs(os.path.join(core.OUT, "replay"), exist_ok=True)
    lines = []
    for sig in known_hit:
        lines.append("KNOWN-FINDING: property=%s %s [%s] (%d occurrence(s) this run)" % (
            pid, open_known[sig].get("what", ""), sig, vcount[sig]))
    replay_paths = {}
    for n, sig in enumerate(new_viol):
        v = viol_by_sig[sig]
        path = os.path.join(core.OUT, "replay", "%s-%s-%d.json" % (pid, core.h16(sig)[:8], n))
        with open(path, "w") as f:
            json.dump({"property": pid, "signature": sig, "message": v["msg"], "case": v.get("case"),
                       "observed": v.get("obs"), "tier": tier, "seed": seed, "repo": build.repo_path()}, f, indent=1, default=str)
        replay_paths[sig] = path
        if n < 25:
            lines.append("VIOLATION property=%s replay=%s  # %s: %s (%d occurrence(s))" % (
                pid, path, sig, " ".join(v["msg"][:300].split()), vcount[sig]))

    verdict = "violated" if new_viol else ("inconclusive" if (errors or missing) else "held")
    coverage = {
        "evaluations": evaluations,
        "distinct_nontrivial": len(distinct) + int(extra.get("distinct", 0)),
        "rule": mod.RULE,
        "samples": samples if samples else [{"note": "no sample recorded"}],
        "buckets": dict(sorted(buckets.items())),
        "required_buckets": required,
        "missing_required_buckets": missing,
        "exhaustive_subspaces": sorted(set(exhaustive)),
        "builds": build_notes,
        "shards": len(results),
        "known_findings_hit": known_hit,
        "verdict": verdict,
    }
    for k, val in extra.items():
        if k not in ("buckets", "evaluations", "distinct"):
            coverage[k] = val
    if errors:
        coverage["harness_errors"] = errors[:5]
    ev = {
        "property_id": pid,
        "tier": tier if tier in ("quick", "thorough") else "quick",
        "seed": seed,
        "level": getattr(mod, "LEVEL", "exploration"),
        "coverage": coverage,
        "assumptions": list(getattr(mod, "ASSUMPTIONS", [])) + [
            "reference models in /verif/monitor/ref (validated against published vectors at every run) are correct",
            "hashlib (SHA-2, HMAC, PBKDF2), unicodedata, Python integers and fractions are correct",
            "nothing is claimed about inputs that were not executed",
        ],
        "wall_s": round(time.time() - t0, 2),
        "violations": len(new_viol),
    }
    # evidence is only ever written for runs against the real repository; runs against a scratch
    # copy (VERIF_REPO) leave their record under out/
    evdir = EVIDENCE_DIR if build.repo_path() == "/repo" else os.path.join(core.OUT, "evidence-alt")
    os.makedirs(evdir, exist_ok=True)
    tmp = os.path.join(evdir, ".%s.%d.tmp" % (pid, os.getpid()))
    with open(tmp, "w") as f:
        json.dump(ev, f, indent=1, default=str)
    os.replace(tmp, os.path.join(evdir, "%s.json" % pid))

    for l in lines:
        print(l)
    print("%s: %s - %d events judged, %d distinct non-trivial, %d bucket classes, %.1fs [%s seed=%d]" % (
        pid, verdict.upper(), evaluations, coverage["distinct_nontrivial"], len(buckets), time.time() - t0, tier, seed))
    if new_viol:
        return 1
    if errors:
        print("INCONCLUSIVE property=%s reason=%s" % (pid, errors[0][:1500]))
        return 2
    if missing:
        print("INCONCLUSIVE property=%s reason=required observation classes never seen: %s" % (pid, ", ".join(missing)))
        return 2
    return 0


def _replay(mod, bins, run_dir, path):
    with open(path) as f:
        rec = json.load(f)
    case = rec["case"]
    if case is None:
        print("INCONCLUSIVE property=%s reason=this replay record has no executable case (sanitizer/extra phase)" % mod.ID)
        return 2
    ctx = Ctx(bins, run_dir)
    try:
        obs = execute_case(ctx, case)
        v = judge_case(mod, case, obs)
    except HarnessError as e:
        print("INCONCLUSIVE property=%s reason=%s" % (mod.ID, e))
        return 2
    finally:
        ctx.close()
    print("replayed case: %s" % json.dumps(core_slim(case))[:1500])
    print("observation : %s" % json.dumps([core_slim(o) for o in obs])[:2000])
    if v.viol:
        known = {f["signature"] for f in load_known() if f.get("property") == mod.ID and f.get("status") == "open"}
        rc = 0
        for sig, msg in v.viol:
            if sig in known:
                print("KNOWN-FINDING: property=%s [%s] %s" % (mod.ID, sig, msg[:300]))
            else:
                print("VIOLATION property=%s replay=%s  # %s: %s" % (mod.ID, path, sig, " ".join(msg[:400].split())))
                rc = 1
        return rc
    print("%s: HELD on the replayed case" % mod.ID)
    return 0


def core_slim(o):
    return _slim(o, 1200)
