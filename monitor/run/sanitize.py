"""Sanitizer / interpreter passes: ASan (op-server and CLI), valgrind memcheck (release CLI as shipped),
Miri (op-server, nightly + patched ethnum), TSan (CLI, nightly -Zbuild-std, scratch copy)."""
import glob
import json
import os
import re
import shutil
import subprocess
import time
from concurrent.futures import ThreadPoolExecutor

from . import build, core
from .core import HarnessError

BUILD = build.BUILD
TARGET = "x86_64-unknown-linux-gnu"


def _key():
    return build._key()


def _first_repo_frame(text):
    """First stack frame inside the repository sources (for de-duplication), else the first frame."""
    repo = build.repo_path()
    for line in text.splitlines():
        if repo + "/src" in line or "/src/" in line and "hdwallet" in line:
            return " ".join(line.split())[:160]
    m = re.search(r"#0 .*", text)
    return " ".join(m.group(0).split())[:160] if m else "?"


# ----------------------------------------------------------------------------- ASan
def build_asan_driver():
    key = _key()
    ws = os.path.join(BUILD, "ws-" + key)
    target = os.path.join(BUILD, "target-asan-" + key)
    with build._Lock("asan-driver-" + key):
        build._sync_workspace(ws)
        env = build._env()
        env["RUSTC_BOOTSTRAP"] = "1"
        env["RUSTFLAGS"] = "-Zsanitizer=address -Cforce-frame-pointers=yes"
        cmd = ["cargo", "build", "--offline", "--target", TARGET, "--target-dir", target]
        try:
            secs = build._run(cmd + ["--features", "hooks"], ws, env, "ASan op-server build")
        except build.BuildError:
            secs = build._run(cmd, ws, env, "ASan op-server build (no hooks)")
    return os.path.join(target, TARGET, "debug", "opserver"), secs


def build_asan_cli():
    key = _key()
    target = os.path.join(BUILD, "target-asan-cli-" + key)
    with build._Lock("asan-cli-" + key):
        env = build._env()
        env["RUSTC_BOOTSTRAP"] = "1"
        env["RUSTFLAGS"] = "-Zsanitizer=address -Cforce-frame-pointers=yes"
        secs = build._run(["cargo", "build", "--offline", "--bin", "hdwallet", "--target", TARGET, "--target-dir", target,
                           "--manifest-path", os.path.join(build.repo_path(), "Cargo.toml")], build.repo_path(), env, "ASan CLI build")
    return os.path.join(target, TARGET, "debug", "hdwallet"), secs


def _asan_reports(logdir):
    reps = []
    for f in glob.glob(os.path.join(logdir, "asan*")):
        with open(f, errors="replace") as fh:
            t = fh.read()
        if "ERROR: AddressSanitizer" in t or "ERROR: LeakSanitizer" in t:
            m = re.search(r"ERROR: (AddressSanitizer|LeakSanitizer): ([^\n]*)", t)
            reps.append({"kind": m.group(2)[:80] if m else "?", "frame": _first_repo_frame(t), "text": t[:3000]})
    return reps


def asan_lib(reqs, run_dir, jobs=8):
    """Runs library requests through the ASan op-server. Returns (summary, violations)."""
    t0 = time.time()
    path, secs = build_asan_driver()
    logdir = os.path.join(run_dir, "asan-lib")
    os.makedirs(logdir, exist_ok=True)
    chunks = [reqs[i::jobs] for i in range(jobs)]
    abn = []

    def work(i):
        srv = core.OpServer(path, {"ASAN_OPTIONS": "halt_on_error=1:abort_on_error=1:detect_leaks=1:log_path=%s/asan-%d" % (logdir, i)})
        try:
            out = srv.call_many(chunks[i], cpu_limit=120)
        finally:
            srv.close()
        return [(r, o) for r, o in zip(chunks[i], out) if any(k in o for k in ("crash", "hang"))]

    with ThreadPoolExecutor(jobs) as ex:
        for res in ex.map(work, range(jobs)):
            abn += res
    reps = _asan_reports(logdir)
    viol = []
    seen = set()
    for r in reps:
        sig = "sanitizer/asan-lib/%s" % re.sub(r"[^A-Za-z0-9_.:/-]+", "_", r["kind"] + "@" + r["frame"])[:150]
        if sig in seen:
            continue
        seen.add(sig)
        viol.append({"sig": sig, "msg": "AddressSanitizer report in the op-server: %s at %s" % (r["kind"], r["frame"]),
                     "case": None, "obs": [{"report": r["text"], "crashed_requests": [json.dumps(a[0])[:400] for a in abn[:3]]}]})
    if abn and not reps:
        viol.append({"sig": "sanitizer/asan-lib/crash-without-report", "msg": "ASan op-server died without a report: %s" % (abn[0][1],),
                     "case": {"j": "lib", "profile": "dev", "steps": [{"lib": abn[0][0]}], "x": {"cls": "asan"}}, "obs": [abn[0][1]]})
    return {"tool": "AddressSanitizer (stable, RUSTC_BOOTSTRAP=1 -Zsanitizer=address), op-server", "executions": len(reqs), "reports": len(reps),
            "build_s": round(secs, 1), "wall_s": round(time.time() - t0, 1)}, viol


def asan_cli(specs, run_dir, interposer, jobs=16):
    t0 = time.time()
    path, secs = build_asan_cli()
    logdir = os.path.join(run_dir, "asan-cli")
    os.makedirs(logdir, exist_ok=True)
    bad = []

    def work(i):
        cli = core.Cli(path, os.path.join(run_dir, "asan-cli-w%d" % i), interposer,
                       extra_env={"ASAN_OPTIONS": "halt_on_error=1:abort_on_error=1:detect_leaks=1:log_path=%s/asan-%d" % (logdir, i)})
        out = []
        for s in specs[i::jobs]:
            o = cli.run(s)
            if "signal" in o or o.get("exit") not in (0, 2, 255, 101, 97):
                out.append((s, o))
        return out

    with ThreadPoolExecutor(jobs) as ex:
        for res in ex.map(work, range(jobs)):
            bad += res
    reps = _asan_reports(logdir)
    viol = []
    seen = set()
    for r in reps:
        sig = "sanitizer/asan-cli/%s" % re.sub(r"[^A-Za-z0-9_.:/-]+", "_", r["kind"] + "@" + r["frame"])[:150]
        if sig not in seen:
            seen.add(sig)
            viol.append({"sig": sig, "msg": "AddressSanitizer report in the CLI: %s at %s" % (r["kind"], r["frame"]), "case": None,
                         "obs": [{"report": r["text"], "runs": [json.dumps(b[0])[:400] for b in bad[:3]]}]})
    return {"tool": "AddressSanitizer, hdwallet CLI", "executions": len(specs), "reports": len(reps), "build_s": round(secs, 1),
            "wall_s": round(time.time() - t0, 1)}, viol


# ----------------------------------------------------------------------------- valgrind
def valgrind_cli(specs, cli_path, run_dir, interposer=None, jobs=16):
    t0 = time.time()
    found = []

    def work(i):
        cli = core.Cli(cli_path, os.path.join(run_dir, "vg-w%d" % i), interposer,
                       wrapper=["valgrind", "--quiet", "--error-exitcode=99", "--leak-check=no", "--read-var-info=no"])
        out = []
        for s in specs[i::jobs]:
            s = dict(s)
            s["timeout"] = 600
            o = cli.run(s)
            if o.get("exit") == 99 or "==" in o.get("stderr", "") and ("Invalid " in o["stderr"] or "uninitialised" in o["stderr"]):
                out.append((s, o))
        return out

    with ThreadPoolExecutor(jobs) as ex:
        for res in ex.map(work, range(jobs)):
            found += res
    viol = []
    seen = set()
    for s, o in found:
        m = re.search(r"==\d+== (Invalid [a-z]+ of size \d+|Conditional jump or move depends on uninitialised value|Use of uninitialised value[^\n]*|[A-Z][^\n]{10,60})", o["stderr"])
        kind = m.group(1) if m else "memcheck error"
        sig = "sanitizer/valgrind/%s" % re.sub(r"[^A-Za-z0-9_.:/-]+", "_", kind)[:100]
        if sig not in seen:
            seen.add(sig)
            viol.append({"sig": sig, "msg": "valgrind memcheck: %s (argv %s)" % (kind, s.get("argv")),
                         "case": {"j": "cli", "profile": "release", "steps": [{"cli": {k: v for k, v in s.items() if k != "timeout"}}], "x": {"cls": "valgrind"}},
                         "obs": [{"stderr": o["stderr"][-1500:]}]})
    return {"tool": "valgrind 3.19 memcheck, release CLI as shipped", "executions": len(specs), "reports": len(found), "wall_s": round(time.time() - t0, 1)}, viol


# ----------------------------------------------------------------------------- Miri
def _miri_ws():
    key = _key()
    ws = os.path.join(BUILD, "ws-miri-" + key)
    build._sync_workspace(ws, "Cargo.nightly.toml")
    return ws, os.path.join(BUILD, "target-miri-" + key)


def miri(batches, run_dir, jobs=16, timeout=3000):
    """batches: list of (name, flags, [requests]). Each batch is one `cargo miri run` process.
    Returns (summary, violations, observations-by-batch)."""
    t0 = time.time()
    ws, target = _miri_ws()
    env = build._env()
    os.makedirs(os.path.join(run_dir, "miri"), exist_ok=True)
    # one serial warm-up so that the parallel runs do not all rebuild
    with build._Lock("miri-" + _key()):
        warm = os.path.join(run_dir, "miri", "warm.jsonl")
        with open(warm, "w") as f:
            f.write('{"op":"ping"}\n')
        e = dict(env)
        e["MIRIFLAGS"] = "-Zmiri-disable-isolation"
        p = subprocess.run(["cargo", "+nightly", "miri", "run", "--offline", "--features", "hooks", "--target-dir", target, "--", "--file", warm],
                           cwd=ws, env=e, stdout=subprocess.PIPE, stderr=subprocess.PIPE, timeout=1800)
        if p.returncode != 0 or b"pong" not in p.stdout:
            raise HarnessError("Miri warm-up failed: %s" % p.stderr.decode(errors="replace")[-1500:])
    build_s = time.time() - t0

    def work(b):
        name, flags, reqs = b
        path = os.path.join(run_dir, "miri", name + ".jsonl")
        with open(path, "w") as f:
            for r in reqs:
                f.write(json.dumps(r) + "\n")
        e = dict(env)
        e["MIRIFLAGS"] = "-Zmiri-disable-isolation " + flags
        try:
            p = subprocess.run(["cargo", "+nightly", "miri", "run", "--offline", "--features", "hooks", "--target-dir", target, "--", "--file", path],
                               cwd=ws, env=e, stdout=subprocess.PIPE, stderr=subprocess.PIPE, timeout=timeout)
        except subprocess.TimeoutExpired:
            return name, None, "timeout", [], reqs
        outs = []
        for line in p.stdout.decode(errors="replace").splitlines():
            try:
                outs.append(json.loads(line))
            except ValueError:
                pass
        return name, p.returncode, p.stderr.decode(errors="replace"), outs, reqs

    viol, inconclusive, executed, panics = [], [], 0, 0
    obs_by_batch = {}
    with ThreadPoolExecutor(jobs) as ex:
        for name, rc, err, outs, reqs in ex.map(work, batches):
            executed += len(outs)
            obs_by_batch[name] = list(zip(reqs, outs))
            if rc is None:
                inconclusive.append("%s: watchdog" % name)
                continue
            if "Undefined Behavior" in err or "error: unsupported operation" in err or (rc != 0 and "error:" in err):
                m = re.search(r"error: ([^\n]+)", err)
                kind = m.group(1) if m else "error"
                if "unsupported operation" in kind:
                    inconclusive.append("%s: %s" % (name, kind[:200]))
                    continue
                culprit = reqs[len(outs)] if len(outs) < len(reqs) else None
                frame = _first_repo_frame(err)
                sig = "sanitizer/miri/%s" % re.sub(r"[^A-Za-z_.:/-]+", "_", re.sub(r"<\d+>|alloc\d+|0x[0-9a-f]+", "N", kind[:90]) + "@" + frame)[:150]
                viol.append({"sig": sig, "msg": "Miri: %s (at %s) while executing %s" % (kind[:200], frame, json.dumps(culprit)[:300]),
                             "case": None, "obs": [{"stderr": err[-3000:]}]})
            for o in outs:
                if "panic" in o:
                    panics += 1
    return ({"tool": "Miri (nightly, patched ethnum), op-server", "executions": executed, "batches": len(batches), "reports": len(viol),
             "inconclusive_batches": inconclusive, "panics_observed": panics, "build_s": round(build_s, 1), "wall_s": round(time.time() - t0, 1)},
            viol, obs_by_batch)


# ----------------------------------------------------------------------------- TSan
def build_tsan_cli():
    key = _key()
    src = os.path.join(BUILD, "tsan-src-" + key)
    target = os.path.join(BUILD, "target-tsan-" + key)
    with build._Lock("tsan-" + key):
        os.makedirs(src, exist_ok=True)
        build._run(["rsync", "-a", "--delete", "--exclude", "target", "--exclude", ".git", build.repo_path() + "/", src + "/"], BUILD, build._env(), "copy for TSan")
        with open(os.path.join(src, "Cargo.toml"), "a") as f:
            f.write('\n[patch.crates-io]\nethnum = { path = "%s/vendor/ethnum-nightly" }\n' % build.VERIF)
        env = build._env()
        env["RUSTFLAGS"] = "-Zsanitizer=thread"
        secs = build._run(["cargo", "+nightly", "build", "--offline", "-Zbuild-std", "--target", TARGET, "--bin", "hdwallet", "--target-dir", target],
                          src, env, "TSan CLI build", timeout=3000)
    return os.path.join(target, TARGET, "debug", "hdwallet"), secs


def tsan_vanity(specs, run_dir, interposer, jobs=4):
    t0 = time.time()
    path, secs = build_tsan_cli()
    logdir = os.path.join(run_dir, "tsan")
    os.makedirs(logdir, exist_ok=True)
    res = []

    def work(i):
        cli = core.Cli(path, os.path.join(run_dir, "tsan-w%d" % i), interposer,
                       extra_env={"TSAN_OPTIONS": "halt_on_error=0:exitcode=66:log_path=%s/tsan-%d" % (logdir, i)})
        return [(s, cli.run(dict(s, timeout=900))) for s in specs[i::jobs]]

    with ThreadPoolExecutor(jobs) as ex:
        for r in ex.map(work, range(jobs)):
            res += r
    reports = []
    for f in glob.glob(os.path.join(logdir, "tsan-*")):
        with open(f, errors="replace") as fh:
            t = fh.read()
        for block in t.split("==================")[1:]:
            if "WARNING: ThreadSanitizer" in block:
                reports.append(block)
    viol = []
    seen = set()
    for b in reports:
        m = re.search(r"WARNING: ThreadSanitizer: ([^\n(]+)", b)
        kind = m.group(1).strip() if m else "report"
        # de-duplicate by kind + stack pair with line numbers stripped
        frames = re.findall(r"#\d+ ([^\s]+) ", b)[:6]
        sig = "sanitizer/tsan/%s" % re.sub(r"[^A-Za-z0-9_.:/-]+", "_", kind + "@" + "|".join(frames))[:160]
        if sig not in seen:
            seen.add(sig)
            viol.append({"sig": sig, "msg": "ThreadSanitizer: %s in a vanity search" % kind, "case": None, "obs": [{"report": b[:3000]}]})
    bad_exit = [(s, o) for s, o in res if o.get("exit") not in (0,)]
    return ({"tool": "ThreadSanitizer (nightly, -Zbuild-std, scratch copy with patched ethnum), hdwallet CLI", "executions": len(specs),
             "reports": len(reports), "non_zero_exits": len(bad_exit), "build_s": round(secs, 1), "wall_s": round(time.time() - t0, 1)}, viol)


# ----------------------------------------------------------------------------- libFuzzer + ASan (coverage-guided workload)
FUZZ_OPS = {0: ("mnemonic.parse", "phrase"), 1: ("path.parse", "text"), 2: ("sig.parse", "text"), 3: ("tx.process", "json"), 4: ("tx.process", "json"),
            5: ("typeddata.hash", "json"), 6: ("typeddata.hash", "json"), 7: ("key.new", "bytes")}


def build_fuzzer():
    key = _key()
    ws = os.path.join(BUILD, "fuzz-" + key)
    target = os.path.join(BUILD, "target-fuzz-" + key)
    with build._Lock("fuzz-" + key):
        os.makedirs(os.path.join(ws, "fuzz_targets"), exist_ok=True)
        with open(os.path.join(build.VERIF, "fuzz", "Cargo.toml")) as f:
            man = f.read().replace("@VERIF@", build.VERIF).replace('path = "/repo"', 'path = "%s"' % build.repo_path())
        with open(os.path.join(ws, "Cargo.toml"), "w") as f:
            f.write(man)
        shutil.copy(os.path.join(build.VERIF, "fuzz", "fuzz_targets", "parsers.rs"), os.path.join(ws, "fuzz_targets", "parsers.rs"))
        if not os.path.exists(os.path.join(ws, "Cargo.lock")):
            shutil.copy(os.path.join(build.repo_path(), "Cargo.lock"), os.path.join(ws, "Cargo.lock"))
        secs = build._run(["cargo", "+nightly", "fuzz", "build", "--fuzz-dir", ".", "--target-dir", target, "parsers"], ws, build._env(),
                          "libFuzzer target build", timeout=3000)
    return os.path.join(target, TARGET, "release", "parsers"), secs


def fuzz_parsers(seed_inputs, run_dir, seconds, forks=16):
    """seed_inputs: list of (selector byte, bytes). Returns (summary, violations)."""
    t0 = time.time()
    path, secs = build_fuzzer()
    corpus = os.path.join(run_dir, "fuzz-corpus")
    arts = os.path.join(run_dir, "fuzz-artifacts")
    os.makedirs(corpus, exist_ok=True)
    os.makedirs(arts, exist_ok=True)
    for i, (sel, b) in enumerate(seed_inputs):
        with open(os.path.join(corpus, "s%05d" % i), "wb") as f:
            f.write(bytes([sel]) + b)
    env = {"PATH": os.environ.get("PATH", "/usr/bin:/bin"), "RUST_BACKTRACE": "0", "HOME": run_dir,
           "ASAN_OPTIONS": "detect_leaks=0:allocator_may_return_null=1"}
    p = subprocess.run([path, corpus, "-max_total_time=%d" % seconds, "-timeout=10", "-rss_limit_mb=3000", "-malloc_limit_mb=2000",
                        "-fork=%d" % forks, "-ignore_crashes=1", "-ignore_timeouts=1", "-ignore_ooms=1", "-artifact_prefix=%s/" % arts, "-max_len=16384"],
                       cwd=run_dir, env=env, stdout=subprocess.PIPE, stderr=subprocess.STDOUT, timeout=seconds + 600)
    out = p.stdout.decode(errors="replace")
    stats = re.findall(r"#(\d+): cov: (\d+) ft: (\d+) corp: (\d+) exec/s: (\d+) oom/timeout/crash: (\d+)/(\d+)/(\d+)", out)
    last = [int(x) for x in stats[-1]] if stats else [0] * 8
    viol = []
    seen = set()
    for name in sorted(os.listdir(arts)):
        with open(os.path.join(arts, name), "rb") as f:
            data = f.read()
        kind = name.split("-")[0]
        sel = data[0] % 8 if data else 0
        op, field = FUZZ_OPS[sel]
        body = data[1:]
        req = {"op": op, field: body.hex() if field == "bytes" else body.decode("utf-8", "replace")}
        if op == "tx.process" and sel == 4:
            req["secret"] = "01" * 32
        sig = "C17/fuzz:%s/%s" % (op, kind)
        if sig in seen:
            continue
        seen.add(sig)
        viol.append({"sig": sig, "msg": "libFuzzer %s artifact for %s (%d bytes): %r" % (kind, op, len(body), body[:80]),
                     "case": {"j": "lib", "profile": "dev", "steps": [{"lib": req}], "x": {"cls": op}}, "obs": [{"artifact": name, "hex": data[:4000].hex()}]})
    return ({"tool": "libFuzzer + AddressSanitizer (nightly, cargo-fuzz), parsers target", "executions": last[0], "coverage_edges": last[1], "features": last[2],
             "corpus": last[3], "oom_timeout_crash": last[5:8], "seconds": seconds, "build_s": round(secs, 1), "wall_s": round(time.time() - t0, 1)}, viol)
