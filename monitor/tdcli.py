"""The command-line surface for typed-data documents and transactions.

The library-level monitors (C06-C09, C13, C20) decide what `serde_json::from_*::<TypedData>` / `<Transaction>` accept and what they
hash. A user reaches the same code through `hash typeddata F`, `hash typeddata F --message-hash` / `-m` and `sign typeddata F`
(`hash transaction F`, `sign transaction F [--signature-only]`); a command that takes another route through the library (its own
entry point, a short cut for one flag) is only visible here. This module turns library cases into CLI cases and judges them with
the same text oracle."""
from .ref import bip39, eth, secp, td

WORDS = "myth like bonus scare over problem client lizard pioneer submit female collect"
_KEY = []


def key():
    if not _KEY:
        seed = bip39.seed(WORDS.split(), "")
        _KEY.append(eth.bip32_derive(seed, eth.default_path(0)))
    return _KEY[0]


def td_cli_case(text, x, profile):
    files = {"td.json": text.encode("utf-8", "surrogatepass").hex() if isinstance(text, str) else text.hex()}
    env = {"MNEMONIC": WORDS}
    steps = [{"cli": {"argv": ["hash", "typeddata", "@FILE:td.json@"], "files": files}},
             {"cli": {"argv": ["hash", "typeddata", "@FILE:td.json@", "--message-hash"], "files": files}},
             {"cli": {"argv": ["hash", "typeddata", "-m", "@FILE:td.json@"], "files": files}},
             {"cli": {"argv": ["sign", "typeddata", "@FILE:td.json@"], "files": files, "env": env}}]
    xx = dict(x or {})
    xx["json"] = text
    return {"j": "cli-doc", "profile": profile, "steps": steps, "x": xx}


def from_lib_cases(cases, every=7, limit=400, profiles=("release", "dev"), part=0, parts=1):
    """Every `every`-th distinct typeddata.hash library case of an iterator as a CLI case, alternating the build profile."""
    seen = set()
    n = k = 0
    for c in cases:
        req = c["steps"][0].get("lib") if len(c["steps"]) == 1 else None
        if not req or req.get("op") != "typeddata.hash" or not isinstance(req.get("json"), str):
            continue
        h = hash(req["json"])
        if h in seen:
            continue
        seen.add(h)
        n += 1
        if n % every:
            continue
        if (n // every) % parts != part:
            continue
        try:
            req["json"].encode("utf-8")
        except UnicodeEncodeError:
            continue
        yield td_cli_case(req["json"], c.get("x"), profiles[k % len(profiles)])
        k += 1
        if k >= limit // parts:
            return


COMMANDS = ("hash typeddata", "hash typeddata --message-hash", "hash typeddata -m", "sign typeddata")


def make_td_judge(pid):
    def judge(case, obs):
        from .run.core import V, abnormal
        v = V()
        if any(abnormal(o) or "exit" not in o for o in obs):
            return v
        xm = case["x"]
        cls, out = td.classify(xm["json"])
        label = xm.get("cls") or xm.get("fault") or "doc"
        if cls == "reject":
            for name, o in zip(COMMANDS, obs):
                if o["exit"] == 0 or o["stdout"].strip():
                    return v.bad("%s/cli/%s/accepted" % (pid, label), "`%s` printed %r (exit %d) for a document the reference refuses (%s)" % (
                        name, o["stdout"].strip()[:70], o["exit"], out))
            return v.bucket("cli-reject-all-commands")
        if cls == "accept":
            digest, _dom, msg_hash = out
            want = ("0x" + digest.hex(), "0x" + msg_hash.hex(), "0x" + msg_hash.hex())
            for name, o, w in zip(COMMANDS, obs, want):
                if o["exit"] != 0:
                    return v.bad("%s/cli/%s/rejected" % (pid, label), "`%s` refused a document the reference accepts: %s" % (name, o["stderr"][-150:]))
                if o["stdout"].strip() != w:
                    return v.bad("%s/cli/%s/wrong-hash" % (pid, label), "`%s` printed %s, reference %s" % (name, o["stdout"].strip()[:70], w))
            o = obs[3]
            s = o["stdout"].strip()
            if o["exit"] != 0 or len(s) != 132 or not s.startswith("0x"):
                return v.bad("%s/cli/%s/sign-failed" % (pid, label), "`sign typeddata` exit %d, printed %r" % (o["exit"], s[:140]))
            try:
                r, ss, vv = int(s[2:66], 16), int(s[66:130], 16), int(s[130:], 16)
                ok = vv in (27, 28) and secp.recover(digest, r, ss, vv - 27) == secp.pubkey(key())
            except ValueError:
                ok = False
            if not ok:
                return v.bad("%s/cli/%s/signature-not-over-the-digest" % (pid, label), "`sign typeddata` output does not recover to the account over the reference digest")
            return v.bucket("cli-accept-hashes-equal-and-signature-recovers")
        v.nontrivial = False
        return v.bucket("cli-unspecified")
    return judge


# ---------------------------------------------------------------------------------------------------------------------------------
# Transactions through the command line: `hash transaction F` prints Keccak-256 of the unsigned payload, so a library judge that
# compares the payload with the reference can judge the command's output through an object that is "equal" to a payload exactly
# when the payload hashes to what was printed.

class HashOf(str):
    """Stands for 'the byte string whose Keccak-256 is this digest' in comparisons with a hex payload."""
    def __eq__(self, other):
        from .ref import keccak
        try:
            return keccak.keccak256(bytes.fromhex(other)).hex() == str.__str__(self)
        except (TypeError, ValueError):
            return False

    def __ne__(self, other):
        return not self.__eq__(other)

    __hash__ = str.__hash__


class Anything(str):
    """Equal to every payload: used where a command's output does not show the payload (only accept / reject is judged)."""
    def __eq__(self, other):
        return True

    def __ne__(self, other):
        return False

    __hash__ = str.__hash__


TX_COMMANDS = ("hash transaction", "sign transaction", "sign transaction --signature-only")


def tx_cli_cases(cases, judges=("num", "bytes"), every=9, limit=300, part=0, parts=1, profiles=("release", "dev")):
    n = k = 0
    for c in cases:
        if c["j"] not in judges or len(c["steps"]) != 1 or (c["steps"][0].get("lib") or {}).get("op") != "tx.process":
            continue
        n += 1
        if n % every or (n // every) % parts != part:
            continue
        text = c["steps"][0]["lib"]["json"]
        try:
            files = {"tx.json": text.encode("utf-8").hex()}
        except UnicodeEncodeError:
            continue
        env = {"MNEMONIC": WORDS}
        steps = [{"cli": {"argv": ["hash", "transaction", "@FILE:tx.json@"], "files": files}},
                 {"cli": {"argv": ["sign", "transaction", "@FILE:tx.json@", "--allow-missing-relay-protection"], "files": files, "env": env}},
                 {"cli": {"argv": ["sign", "transaction", "--signature-only", "--allow-missing-relay-protection", "@FILE:tx.json@"], "files": files, "env": env}}]
        x = dict(c.get("x") or {})
        x["_base"] = c["j"]
        yield {"j": "cli-tx", "profile": profiles[k % len(profiles)], "steps": steps, "x": x}
        k += 1
        if k >= max(1, limit // parts):
            return


def make_tx_judge(pid, base_judges):
    def judge(case, obs):
        from .run.core import V, abnormal
        if any(abnormal(o) or "exit" not in o for o in obs):
            return V()
        base = base_judges[case["x"]["_base"]]
        out = V()
        for name, o in zip(TX_COMMANDS, obs):
            if o["exit"] == 0:
                s = o["stdout"].strip()
                shown = HashOf(s[2:]) if name == "hash transaction" and len(s) == 66 else Anything()
                fake = {"ok": {"unsigned": shown, "kind": "?"}}
            else:
                if o["stdout"].strip():
                    return out.bad("%s/cli/%s/output-with-error" % (pid, name.replace(" ", "-")), "`%s` failed but printed %r" % (name, o["stdout"].strip()[:80]))
                fake = {"err": o["stderr"][-200:]}
            v = base(case, [fake])
            for sig, msg in v.viol:
                # the signature stays the input class (a known finding is the same finding through whichever command it is seen)
                out.bad(sig, "through `%s`: %s" % (name, msg))
            if name == "hash transaction":
                out.buckets.extend(v.buckets)
                out.nontrivial = v.nontrivial
        return out.bucket("cli-tx-commands-judged")
    return judge
