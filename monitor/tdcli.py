"""The command-line surface for typed-data documents and transactions.

The library-level monitors (C06-C09, C13, C20) decide what `serde_json::from_*::<TypedData>` / `<Transaction>` accept and what they
hash. A user reaches the same code through `hash typeddata F`, `hash typeddata F --message-hash` / `-m` and `sign typeddata F`
(`hash transaction F`, `sign transaction F [--signature-only]`); a command that takes another route through the library (its own
entry point, a short cut for one flag) is only visible here. This module turns library cases into CLI cases and judges them with
the same text oracle."""
from .ref import bip39, eth, secp, td

WORDS = "myth like bonus scare over problem client lizard pioneer submit female collect"
_KEY = []


def key():
    if not _KEY:
        seed = bip39.seed(WORDS.split(), "")
        _KEY.append(eth.bip32_derive(seed, eth.default_path(0)))
    return _KEY[0]


def td_cli_case(text, x, profile):
    files = {"td.json": text.encode("utf-8", "surrogatepass").hex() if isinstance(text, str) else text.hex()}
    env = {"MNEMONIC": WORDS}
    steps = [{"cli": {"argv": ["hash", "typeddata", "@FILE:td.json@"], "files": files}},
             {"cli": {"argv": ["hash", "typeddata", "@FILE:td.json@", "--message-hash"], "files": files}},
             {"cli": {"argv": ["hash", "typeddata", "-m", "@FILE:td.json@"], "files": files}},
             {"cli": {"argv": ["sign", "typeddata", "@FILE:td.json@"], "files": files, "env": env}}]
    xx = dict(x or {})
    xx["json"] = text
    return {"j": "cli-doc", "profile": profile, "steps": steps, "x": xx}


def from_lib_cases(cases, every=7, limit=400, profiles=("release", "dev"), part=0, parts=1):
    """Every `every`-th distinct typeddata.hash library case of an iterator as a CLI case, alternating the build profile."""
    seen = set()
    n = k = 0
    for c in cases:
        req = c["steps"][0].get("lib") if len(c["steps"]) == 1 else None
        if not req or req.get("op") != "typeddata.hash" or not isinstance(req.get("json"), str):
            continue
        h = hash(req["json"])
        if h in seen:
            continue
        seen.add(h)
        n += 1
        if n % every:
            continue
        if (n // every) % parts != part:
            continue
        try:
            req["json"].encode("utf-8")
        except UnicodeEncodeError:
            continue
        yield td_cli_case(req["json"], c.get("x"), profiles[k % len(profiles)])
        k += 1
        if k >= limit // parts:
            return


COMMANDS = ("hash typeddata", "hash typeddata --message-hash", "hash typeddata -m", "sign typeddata")


def make_td_judge(pid):
    def judge(case, obs):
        from .run.core import V, abnormal
        v = V()
        if any(abnormal(o) or "exit" not in o for o in obs):
            return v
        xm = case["x"]
        cls, out = td.classify(xm["json"])
        label = xm.get("cls") or xm.get("fault") or "doc"
        if cls == "reject":
            for name, o in zip(COMMANDS, obs):
                if o["exit"] == 0 or o["stdout"].strip():
                    return v.bad("%s/cli/%s/accepted" % (pid, label), "`%s` printed %r (exit %d) for a document the reference refuses (%s)" % (
                        name, o["stdout"].strip()[:70], o["exit"], out))
            return v.bucket("cli-reject-all-commands")
        if cls == "accept":
            digest, _dom, msg_hash = out
            want = ("0x" + digest.hex(), "0x" + msg_hash.hex(), "0x" + msg_hash.hex())
            for name, o, w in zip(COMMANDS, obs, want):
                if o["exit"] != 0:
                    return v.bad("%s/cli/%s/rejected" % (pid, label), "`%s` refused a document the reference accepts: %s" % (name, o["stderr"][-150:]))
                if o["stdout"].strip() != w:
                    return v.bad("%s/cli/%s/wrong-hash" % (pid, label), "`%s` printed %s, reference %s" % (name, o["stdout"].strip()[:70], w))
            o = obs[3]
            s = o["stdout"].strip()
            if o["exit"] != 0 or len(s) != 132 or not s.startswith("0x"):
                return v.bad("%s/cli/%s/sign-failed" % (pid, label), "`sign typeddata` exit %d, printed %r" % (o["exit"], s[:140]))
            try:
                r, ss, vv = int(s[2:66], 16), int(s[66:130], 16), int(s[130:], 16)
                ok = vv in (27, 28) and secp.recover(digest, r, ss, vv - 27) == secp.pubkey(key())
            except ValueError:
                ok = False
            if not ok:
                return v.bad("%s/cli/%s/signature-not-over-the-digest" % (pid, label), "`sign typeddata` output does not recover to the account over the reference digest")
            return v.bucket("cli-accept-hashes-equal-and-signature-recovers")
        v.nontrivial = False
        return v.bucket("cli-unspecified")
    return judge
