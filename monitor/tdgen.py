"""EIP-712 workload generator: random type graphs, conforming values in several
spellings, JSON rendering. The oracle (ref/td.py) works from the rendered text
alone, so nothing the generator 'knows' leaks into the verdict."""
import json

from .gen import rand_bytes
from .ref import eip712
from .txgen import hex_case

STRUCT_NAMES = ["uint", "int", "fixed", "byte", "Mail", "Person", "Asset", "a", "A", "B", "b", "Zed", "_x", "Foo2", "Foo10", "Foo", "Foobar", "bytes0", "uint9", "int264",
                "bytes33", "uint320", "Z", "z", "aa", "Aa", "aA", "M", "m", "Node", "Tree", "Order", "Permit", "EIP712Domainx", "Bool",
                "Address", "String", "Bytes", "uint256x", "int7", "bytes64", "T1", "T2", "T10", "C", "c", "_", "$t", "Ab", "AB",
                "Foo$", "Foo$Bar", "Mail$", "Mail$Box", "a$", "A$b", "Token", "Token$Meta", "T1$", "$", "$$"]
MEMBER_NAMES = ["a", "b", "c", "from", "to", "value", "data", "nonce", "deadline", "owner", "spender", "x", "y", "kids", "next", "items", "name",
                "wallet", "contents", "amount", "token", "flag", "id", "salt", "chainId", "version", "m1", "m2", "m3", "_p", "Q"]
# names outside the Solidity identifier grammar: EIP-712's definitions are purely textual, so they are legal documents; the tool and
# the reference must treat them mechanically alike (none ends in "]", so none can be read as an array type)
WEIRD_STRUCT_NAMES = ["My Struct", "A,B", "P(x)", "\u00e9", "\u540d\u524d", "\u00dcn\u00ef", "a b", "c)d", "a.b", "a-b", "x\ty", "\"q\"", "u[int", "]x", "(", ")",
                      ",", " ", "uint8 ", " uint8", "Uint8", "BYTES32", "string ", "\U0001f600", "a\u0301", "\u00e1", "Z\u200b"]
WEIRD_MEMBER_NAMES = ["z z", "", "a,b", "x)y", "\u00e9", " ", "(", "uint8", "type", "name ", "\u200b", "\"", "\\", "a\nb", "\U0001f600"]
UINT_W = list(range(8, 257, 8))


def rand_atom(rng):
    r = rng.random()
    if r < 0.12:
        return "bool"
    if r < 0.24:
        return "address"
    if r < 0.36:
        return "string"
    if r < 0.46:
        return "bytes"
    if r < 0.6:
        return "bytes%d" % rng.choice([1, 2, 4, 8, 16, 20, 31, 32, rng.randint(1, 32)])
    if r < 0.8:
        return "uint%d" % rng.choice([8, 16, 32, 64, 96, 128, 160, 248, 256, rng.choice(UINT_W)])
    return "int%d" % rng.choice([8, 16, 32, 64, 128, 248, 256, rng.choice(UINT_W)])


def rand_suffix(rng, allow_fixed_positive=True, maxdepth=3):
    s = ""
    positive_used = False
    for _ in range(rng.choice([1, 1, 1, 2, 2, 3])):
        r = rng.random()
        if r < 0.55:
            s += "[]"
        elif r < 0.7 or not allow_fixed_positive or positive_used:
            s += "[0]"
        else:
            s += "[%d]" % rng.choice([1, 2, 2, 3])
            positive_used = True
    return s


def rand_graph(rng, nstructs=None, shape=None, domain_ref=False):
    """Returns (types dict name -> [(member, type)], primary). Struct i may embed struct j directly (or in positive fixed arrays)
    only if j > i; through dynamic arrays or [0] it may reference any struct, itself included (recursion)."""
    n = nstructs or rng.choice([1, 2, 2, 3, 3, 4, 5, 6, 8])
    names = rng.sample(STRUCT_NAMES, n)
    weird = rng.random() < 0.12
    if weird:
        k = rng.randint(1, n)
        for i, w in zip(rng.sample(range(n), k), rng.sample(WEIRD_STRUCT_NAMES, k)):
            names[i] = w
    if n >= 3 and rng.random() < 0.25:
        a, b = rng.choice([("Foo", "Foo$Bar"), ("Mail", "Mail$Box"), ("Token", "Token$Meta"), ("T1", "T1$"), ("$", "$$"), ("Foo$", "Foo$Bar")])
        names = [x for x in names if x not in (a, b)][:n - 2]
        i = rng.randrange(len(names) + 1)
        names[i:i] = [a, b] if rng.random() < 0.5 else [b, a]
    types = {}
    for i, name in enumerate(names):
        k = rng.choice([0, 1, 2, 3, 3, 4, 5, 6])
        mnames = rng.sample(MEMBER_NAMES, k)
        if weird and k:
            mnames[rng.randrange(k)] = rng.choice(WEIRD_MEMBER_NAMES)
            if len(set(mnames)) != len(mnames):
                mnames = rng.sample(MEMBER_NAMES, k)
        members = []
        for mn in mnames:
            r = rng.random()
            if r < 0.45 or n == 1 and r < 0.7:
                ts = rand_atom(rng)
                if rng.random() < 0.25:
                    ts += rand_suffix(rng)
            else:
                higher = names[i + 1:]
                r2 = rng.random()
                if higher and r2 < 0.55:
                    ts = rng.choice(higher)
                    if rng.random() < 0.35:
                        ts += rand_suffix(rng)
                else:
                    # any struct (self / lower included) through a dynamic or empty array
                    ts = rng.choice(names) + rand_suffix(rng, allow_fixed_positive=False)
                    if "[]" not in ts and "[0]" not in ts:
                        ts += "[]"
            members.append((mn, ts))
        types[name] = members
    primary = names[0] if rng.random() < 0.8 else rng.choice(names)
    if n >= 2 and rng.random() < 0.08:
        # two different structs with identical member lists
        a, b = rng.sample(range(n), 2)
        if a > b:
            a, b = b, a
        types[names[a]] = list(types[names[b]])
    if domain_ref and rng.random() < 0.06:
        # a message struct that references the domain struct type itself
        host = rng.choice(names)
        types[host] = types[host] + [("zdomain", "EIP712Domain" + rng.choice(["", "[]", "[1]", "[0]", "[][]"]))]
    if shape == "repeat":
        # the same dependency referenced 2-3 times at chosen positions among other references
        if n < 3:
            return rand_graph(rng, 3, shape, domain_ref)
        p, dep, other = names[0], names[1], names[2]
        pos = rng.choice(["before", "between", "after"])
        refs = {"before": [dep, dep, other], "between": [other, dep, dep, other], "after": [other, dep, dep]}[pos]
        if rng.random() < 0.4:
            refs.insert(rng.randrange(len(refs) + 1), dep)
        ms = []
        for j, r in enumerate(refs):
            ms.append(("r%d" % j, r + (rand_suffix(rng, allow_fixed_positive=False) if rng.random() < 0.3 else "")))
            if rng.random() < 0.3:
                ms.append(("p%d" % j, rand_atom(rng)))
        types[p] = ms
        primary = p
    elif shape == "recursive":
        p = names[0]
        types[p] = types[p] + [("zkids", p + "[]")]
        if n > 1 and rng.random() < 0.6:
            q = names[1]
            types[q] = types[q] + [("zback", p + rng.choice(["[]", "[][]", "[0]"]))]
            types[p] = types[p] + [("zfwd", q)] if not any(ts == q for _, ts in types[p]) else types[p]
        primary = p
    elif shape == "chain":
        for i in range(n - 1):
            types[names[i]] = types[names[i]] + [("znx", names[i + 1] + ("[]" if rng.random() < 0.3 else ""))]
        primary = names[0]
    return types, primary


# ----------------------------------------------------------------- values and spellings
def rand_int_in(rng, lo, hi):
    r = rng.random()
    if r < 0.35:
        c = [lo, lo + 1, hi, hi - 1, 0, 1, -1, hi // 2, lo // 2, 255, 256, 2**53 - 1, 2**53, 2**63, 2**64 - 1, -(2**63), -(2**53) + 1]
        c = [x for x in c if lo <= x <= hi]
        return rng.choice(c)
    if r < 0.6:
        return rng.randint(max(lo, -1000), min(hi, 1000))
    return rng.randint(lo, hi)


def spell_int(rng, v):
    opts = ["dec", "hex"]
    if -(2**63) <= v < 2**64:
        opts.append("int")
    if abs(v) < 2**53:
        opts.append("float")
    elif rng.random() < 0.08:
        # unspecified spellings (bare integer >= 2^64, integral float >= 2^53): the tool may refuse them, but if it
        # accepts them the value must be the exact integer written
        return rng.choice(["%d" % v, "%d.0" % v, "%de0" % v])
    k = rng.choice(opts)
    if k == "int":
        return str(v)
    if k == "float":
        return rng.choice(["%d.0", "%de0", "%d.00e+0"]) % v
    if k == "dec":
        return '"%d"' % v
    h = "%x" % abs(v)
    return '"%s0x%s"' % ("-" if v < 0 else "", hex_case(rng, h))


def rand_string(rng):
    r = rng.random()
    if r < 0.2:
        return ""
    if r < 0.27:
        # lengths around one word, the short-string limit and the Keccak rate
        return "".join(chr(rng.randint(0x21, 0x7e)) for _ in range(rng.choice([31, 32, 33, 55, 56, 64, 135, 136, 137, 271, 272, 273])))
    if r < 0.6:
        return "".join(chr(rng.randint(0x20, 0x7e)) for _ in range(rng.randint(1, 40)))
    if rng.random() < 0.12:
        # text that looks like a value of another type: it is still a string and hashes as its UTF-8 bytes
        return rng.choice(["0x", "0x00", "0xdeadbeef", "0X12", "0x" + "ab" * 20, "0x" + "00" * 32, "true", "false", "123", "-5", "1.5", "[]", "{}", "null",
                           "0xZZ", "0x0", " 0x00", "uint256", "\\u0041", "\\n", "%s", "0x" + "Ab" * 3])
    pool = ["\u00e9", "\u4e2d", "\U0001f600", "\n", "\t", "\"", "\\", "\u0000", "\u200b", "a", " ", "\u05d0", "\ud7ff", "\uffff", "/", "\u007f"]
    return "".join(rng.choice(pool) for _ in range(rng.randint(1, 20)))


class TooBig(Exception):
    pass


class Budget:
    def __init__(self, n):
        self.n = n


def rand_value_tree(rng, types, type_string, depth, budget):
    """A random conforming value as a tree: leaves are raw JSON tokens (str), arrays are lists, structs are dicts."""
    t = eip712.parse_type(type_string)
    k = t[0]
    budget.n -= 1
    if budget.n < -1500:
        raise TooBig()
    if k == "bool":
        return rng.choice(["true", "false"])
    if k == "address":
        b = rand_bytes(rng, 20) if rng.random() < 0.8 else rng.choice([bytes(20), b"\xff" * 20])
        m = rng.randrange(3)
        if m == 0:
            return '"0x%s"' % b.hex()
        if m == 1:
            return '"0x%s"' % b.hex().upper()
        from .ref.eth import eip55
        return '"%s"' % eip55(b)
    if k == "string":
        return json.dumps(rand_string(rng), ensure_ascii=rng.random() < 0.5)
    if k == "bytes":
        n = rng.choice([0, 1, 2, 31, 32, 33, 64, 100, 135, 136, 137, 272, rng.randint(0, 300)])
        return '"0x%s"' % hex_case(rng, rand_bytes(rng, n).hex())
    if k == "bytesN":
        b = rand_bytes(rng, t[1]) if rng.random() < 0.8 else rng.choice([bytes(t[1]), b"\xff" * t[1], b"\x00" * (t[1] - 1) + b"\x01"])
        return '"0x%s"' % hex_case(rng, b.hex())
    if k == "uint":
        return spell_int(rng, rand_int_in(rng, 0, 2 ** t[1] - 1))
    if k == "int":
        return spell_int(rng, rand_int_in(rng, -(2 ** (t[1] - 1)), 2 ** (t[1] - 1) - 1))
    if k == "array":
        if t[2] is not None:
            n = t[2]
        elif depth <= 0 or budget.n <= 0:
            n = 0
        else:
            n = rng.choice([0, 1, 1, 2, 3])
            if eip712.parse_type(t[1])[0] not in ("struct", "array") and rng.random() < 0.15:
                # element counts around the hash function's block (136 bytes = 4.25 words) and other powers of two
                n = rng.choice([4, 5, 8, 15, 16, 17, 31, 32, 33, 64, 65])
                budget.n -= n
        return [rand_value_tree(rng, types, t[1], depth - 1, budget) for _ in range(n)]
    members = types[t[1]]
    return {mn: rand_value_tree(rng, types, ts, depth - 1, budget) for mn, ts in members}


def render_tree(rng, tree):
    if isinstance(tree, str):
        return tree
    if isinstance(tree, list):
        return "[" + ",".join(render_tree(rng, e) for e in tree) + "]"
    items = list(tree.items())
    if rng.random() < 0.7:
        rng.shuffle(items)
    return "{" + ",".join("%s:%s" % (json.dumps(k), render_tree(rng, v)) for k, v in items) + "}"


def walk(types, type_string, tree, path=()):
    """Yields (path, type_string, node, container, key) for every node of a value tree."""
    t = eip712.parse_type(type_string)
    yield path, type_string, tree, None, None
    if t[0] == "array" and isinstance(tree, list):
        for i, e in enumerate(tree):
            for item in walk(types, t[1], e, path + (i,)):
                yield item if item[3] is not None else (item[0], item[1], item[2], tree, i)
    elif t[0] == "struct" and isinstance(tree, dict):
        for mn, ts in types.get(t[1], []):
            if mn in tree:
                for item in walk(types, ts, tree[mn], path + (mn,)):
                    yield item if item[3] is not None else (item[0], item[1], item[2], tree, mn)


def rand_value_token(rng, types, type_string, depth, budget):
    return render_tree(rng, rand_value_tree(rng, types, type_string, depth, budget))


def domain_subsets():
    out = []
    for mask in range(1, 32):
        out.append([f for i, f in enumerate(eip712.DOMAIN_FIELDS) if mask >> i & 1])
    return out


def types_token(rng, types, shuffle=True):
    names = list(types)
    if shuffle:
        rng.shuffle(names)
    parts = []
    for n in names:
        ms = ",".join('{"name":%s,"type":%s}' % (json.dumps(mn), json.dumps(ts)) if rng.random() < 0.8 else
                      '{"type":%s,"name":%s}' % (json.dumps(ts), json.dumps(mn)) for mn, ts in types[n])
        parts.append("%s:[%s]" % (json.dumps(n), ms))
    return "{" + ",".join(parts) + "}"


def rand_document(rng, shape=None, domain_fields=None, depth=4):
    """Returns (text, info) for a random well-typed document."""
    while True:
        try:
            return _rand_document(rng, shape, domain_fields, depth)
        except TooBig:
            continue


def _rand_document(rng, shape, domain_fields, depth):
    types, primary = rand_graph(rng, shape=shape, domain_ref=True)
    dom = domain_fields if domain_fields is not None else rng.choice(domain_subsets())
    types = dict(types)
    types["EIP712Domain"] = list(dom)
    budget = Budget(120)
    msg = rand_value_tree(rng, types, primary, depth, budget)
    dv = rand_value_tree(rng, types, "EIP712Domain", 2, Budget(20))
    return assemble(rng, types, primary, render_tree(rng, dv), render_tree(rng, msg)), {"types": types, "primary": primary,
                                                                                        "domain": dv, "message": msg}


def sibling_document(rng, info, depth=3):
    """A second document that shares every struct *signature* with `info` except for ONE referenced (non-primary) struct whose
    members differ. Anything cached per struct name or per struct signature from the first document is stale for the second."""
    types = {k: list(v) for k, v in info["types"].items()}
    primary = info["primary"]
    deps = sorted(eip712.dependencies(types, primary))
    if not deps:
        return None
    victim = rng.choice(deps)
    ms = list(types[victim])
    k = rng.randrange(4)
    if k == 0 or not ms:
        ms.append(("zextra", rand_atom(rng)))
    elif k == 1:
        i = rng.randrange(len(ms))
        ms[i] = (ms[i][0] + "_", ms[i][1])
    elif k == 2:
        i = rng.randrange(len(ms))
        if eip712.struct_ref(ms[i][1]) is None:
            ms[i] = (ms[i][0], rand_atom(rng))
        else:
            ms.append(("zextra", "uint8"))
    else:
        ms = ms[1:] if len(ms) > 1 else ms + [("zextra", "bool")]
    types[victim] = ms
    for _ in range(20):
        try:
            msg = rand_value_tree(rng, types, primary, depth, Budget(120))
            dv = rand_value_tree(rng, types, "EIP712Domain", 2, Budget(20))
            return assemble(rng, types, primary, render_tree(rng, dv), render_tree(rng, msg)), {"types": types, "primary": primary}
        except TooBig:
            continue
    return None


def assemble(rng, types, primary, domain_tok, message_tok, types_tok=None):
    parts = [('"types"', types_tok or types_token(rng, types)), ('"primaryType"', json.dumps(primary)), ('"domain"', domain_tok),
             ('"message"', message_tok)]
    rng.shuffle(parts)
    from .gen import respell_json_strings
    return respell_json_strings(rng, "{" + ",".join("%s:%s" % p for p in parts) + "}")
