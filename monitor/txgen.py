"""Transaction workload generator: abstract transactions (Python ints/bytes) and
their JSON renderings in the spellings hdwallet documents."""
import json

from .gen import boundary_u256, rand_bytes, SPECIAL_ADDRESSES
from .ref import tx as reftx

LEGACY, T2930, T1559 = reftx.LEGACY, reftx.T2930, reftx.T1559
KINDS = (LEGACY, T2930, T1559)
NUM_FIELDS = {
    LEGACY: ["nonce", "gasPrice", "gas", "value", "chainId"],
    T2930: ["chainId", "nonce", "gasPrice", "gas", "value"],
    T1559: ["chainId", "nonce", "maxPriorityFeePerGas", "maxFeePerGas", "gas", "value"],
}


# ----------------------------------------------------------------- abstract <-> JSON-able
def tx_to_meta(tx):
    m = {}
    for k, v in tx.items():
        if isinstance(v, bytes):
            m[k] = "0x" + v.hex()
        elif isinstance(v, int) and not isinstance(v, bool):
            m[k] = str(v)
        elif k == "accessList" and v is not None:
            m[k] = [["0x" + a.hex(), ["0x" + s.hex() for s in sl]] for a, sl in v]
        else:
            m[k] = v
    return m


def tx_from_meta(m):
    tx = {}
    for k, v in m.items():
        if k == "kind":
            tx[k] = v
        elif k == "accessList":
            tx[k] = None if v is None else [(bytes.fromhex(a[2:]), [bytes.fromhex(s[2:]) for s in sl]) for a, sl in v]
        elif k in ("to", "data"):
            tx[k] = None if v is None else bytes.fromhex(v[2:])
        else:
            tx[k] = None if v is None else int(v)
    return tx


# ----------------------------------------------------------------- random abstract transactions
DATA_LENS = [0, 1, 2, 31, 32, 54, 55, 56, 57, 100, 254, 255, 256, 257, 1000, 4096]


def rand_data(rng, big=False):
    r = rng.random()
    if r < 0.2:
        return b""
    if r < 0.3:
        return bytes([rng.choice([0x00, 0x01, 0x7f, 0x80, 0x81, 0xff, rng.randrange(256)])])
    n = rng.choice(DATA_LENS + ([65535, 65536, 70000] if big else []))
    if rng.random() < 0.3:
        n = rng.randrange(0, 600)
    return rand_bytes(rng, n)


def rand_access_list(rng, big=False):
    r = rng.random()
    if r < 0.25:
        return []
    if r < 0.35:
        return [(rand_bytes(rng, 20), [])]
    n = rng.choice([1, 1, 2, 3, 5, 8] + ([40] if big else []))
    out = []
    for _ in range(n):
        k = rng.choice([0, 1, 1, 2, 3, 7] + ([30] if big else []))
        slots = []
        for _ in range(k):
            c = rng.random()
            slots.append(bytes(32) if c < 0.1 else (rng.randrange(16)).to_bytes(32, "big") if c < 0.3 else rand_bytes(rng, 32))
        if slots and rng.random() < 0.25:
            i = rng.randrange(len(slots))
            slots.insert(i, slots[i])  # the same key twice in a row
        out.append((rand_bytes(rng, 20) if rng.random() < 0.9 else bytes(20), slots))
    if len(out) > 1 and rng.random() < 0.2:
        out.append(out[0])  # duplicate entry
    elif out and rng.random() < 0.15:
        out.append(out[-1])  # the same entry twice in a row
    return out


def rand_chain_id(rng):
    r = rng.random()
    if r < 0.5:
        return rng.choice([0, 1, 1, 5, 10, 56, 137, 1337, 42161, 11155111, 2**31, 2**32, 2**63, 2**64 - 1, 2**64, 2**128])
    if r < 0.7:
        return rng.getrandbits(rng.choice([8, 16, 32, 64]))
    return boundary_u256(rng) % (2**200)


def rand_tx(rng, kind=None, big=False):
    kind = kind or rng.choice(KINDS)
    tx = {"kind": kind, "nonce": boundary_u256(rng), "gas": boundary_u256(rng), "value": boundary_u256(rng),
          "to": None if rng.random() < 0.3 else (rng.choice(SPECIAL_ADDRESSES) if rng.random() < 0.12 else rand_bytes(rng, 20)), "data": rand_data(rng, big)}
    if rng.random() < 0.5:
        # realistic small values
        tx["nonce"] = rng.randrange(0, 1000)
        tx["gas"] = rng.choice([21000, 100000, 0, 30_000_000])
    if kind == LEGACY:
        tx["gasPrice"] = boundary_u256(rng)
        tx["chainId"] = None if rng.random() < 0.3 else rand_chain_id(rng)
    elif kind == T2930:
        tx["gasPrice"] = boundary_u256(rng)
        tx["chainId"] = rand_chain_id(rng)
        tx["accessList"] = rand_access_list(rng, big)
    else:
        tx["maxPriorityFeePerGas"] = boundary_u256(rng)
        tx["maxFeePerGas"] = boundary_u256(rng)
        tx["chainId"] = rand_chain_id(rng)
        tx["accessList"] = rand_access_list(rng, big)
    if rng.random() < 0.15:
        # two fields with the same value (nonce = gas, value = gasPrice, chainId = nonce, ...): nothing may depend on that
        fs = [f for f in NUM_FIELDS[tx["kind"]] if tx.get(f) is not None]
        a, b = rng.sample(fs, 2)
        if not (tx["kind"] == LEGACY and b == "chainId" and tx[a] > (2**256 - 37) // 2):
            tx[b] = tx[a]
        if rng.random() < 0.3:
            tx["value"] = len(tx["data"])
    if tx["kind"] != LEGACY and rng.random() < 0.2:
        # entries that coincide with other parts of the transaction: the recipient itself, the zero address, with and without keys
        al = list(tx["accessList"])
        a = tx["to"] if (tx.get("to") is not None and rng.random() < 0.5) else rng.choice(SPECIAL_ADDRESSES)
        keys = [] if rng.random() < 0.6 else [a.rjust(32, b"\x00")] + ([rand_bytes(rng, 32)] if rng.random() < 0.5 else [])
        al.insert(rng.randrange(len(al) + 1), (a, keys))
        if rng.random() < 0.3:
            al.insert(rng.randrange(len(al) + 1), (a, []))
        tx["accessList"] = al
    return tx


# ----------------------------------------------------------------- JSON rendering
def hex_case(rng, h):
    m = rng.randrange(3)
    if m == 0:
        return h.lower()
    if m == 1:
        return h.upper()
    return "".join(c.upper() if rng.random() < 0.5 else c.lower() for c in h)


def spell_number(rng, v, allowed=("int", "float", "dec", "hex")):
    """A must-accept spelling of the non-negative integer v as a raw JSON token."""
    opts = []
    if "int" in allowed and v < 2**64:
        opts.append("int")
    if "float" in allowed and v < 2**53:
        opts.append("float")
    if "dec" in allowed:
        opts.append("dec")
    if "hex" in allowed:
        opts.append("hex")
    k = rng.choice(opts)
    if k == "int":
        return str(v)
    if k == "float":
        f = rng.randrange(5)
        if f == 0:
            return "%d.0" % v
        if f == 1:
            return "%de0" % v
        if f == 2:
            return "%d.000e+0" % v
        if f == 3 and v % 10 == 0 and v > 0:
            z = len(str(v)) - len(str(v).rstrip("0"))
            k10 = rng.randint(1, z)
            return "%dE%d" % (v // 10**k10, k10)
        return "%d0e-1" % v if v else "0.0"
    if k == "dec":
        return '"%d"' % v
    h = "%x" % v
    return '"0x%s"' % hex_case(rng, h)


def addr_token(rng, a, loose=False):
    """An address spelling every tool must take: all lower case, or with the correct EIP-55 checksum. Other letter cases are only
    produced with loose=True, for callers that tolerate a refusal (a tool may validate the checksum of a mixed-case address; no
    property obliges it to accept one that fails)."""
    if loose:
        return '"0x%s"' % hex_case(rng, a.hex())
    from .ref import eth
    return '"%s"' % (eth.eip55(a) if rng.random() < 0.5 else "0x" + a.hex())


def tokens_for(rng, tx, spell=("int", "float", "dec", "hex"), to_style=None):
    """dict key -> raw JSON token for the abstract transaction (must-accept spellings only)."""
    t = {}
    for f in NUM_FIELDS[tx["kind"]]:
        if f == "chainId" and tx.get("chainId") is None:
            if rng.random() < 0.3:
                t[f] = "null"
            continue
        t[f] = spell_number(rng, tx[f], spell)
    if tx.get("to") is None:
        style = to_style or rng.choice(["absent", "null"])
        if style == "null":
            t["to"] = "null"
    else:
        t["to"] = addr_token(rng, tx["to"])
    t["data"] = '"0x%s"' % hex_case(rng, tx["data"].hex())
    if tx["kind"] == T2930 or (tx["kind"] == T1559 and (tx.get("accessList") or rng.random() < 0.5)):
        al = tx.get("accessList") or []
        t["accessList"] = "[" + ",".join("[%s,[%s]]" % (addr_token(rng, a), ",".join('"0x%s"' % hex_case(rng, s.hex()) for s in sl))
                                         for a, sl in al) + "]"
    return t


def render(rng, tokens, shuffle=True, extra_ws=True):
    keys = list(tokens)
    if shuffle:
        rng.shuffle(keys)
    ws = (lambda: rng.choice(["", " ", "\n", "  ", "\t"])) if extra_ws else (lambda: "")
    parts = ["%s%s%s:%s%s" % (ws(), json.dumps(k), ws(), ws(), tokens[k]) for k in keys]
    from .gen import respell_json_strings
    return respell_json_strings(rng, "{" + ",".join(parts) + ws() + "}")


def size_class(n):
    for lim, name in ((0, "0"), (1, "1"), (55, "2..55"), (255, "56..255"), (65535, "256..65535"), (2**24 - 1, "65536..2^24-1")):
        if n <= lim:
            return name
    return ">=2^24"


# ----------------------------------------------------------------- signatures with a rare shape
# Found by an offline search (monitor/data/rare_sigs.json; about 1.2 M RFC 6979 signatures, 6 minutes on 5 cores): raw digests and
# transactions of each kind whose deterministic signature under RARE_KEY has two or three leading zero bytes in r or s, or one in
# both. By volume such a signature turns up once in 2^16 (2^24) signatures; encoders that handle "a leading zero byte" and
# "several leading zero bytes" differently only show there.
RARE_KEY = 0x4c0883a69102937d6231471b5dbb6204fe5129617082792ae468d01a3f362318
_RARE = None


def rare_sigs():
    global _RARE
    if _RARE is None:
        import json
        import os
        with open(os.path.join(os.path.dirname(os.path.abspath(__file__)), "data", "rare_sigs.json")) as f:
            d = json.load(f)
        assert int(d["key"], 16) == RARE_KEY
        _RARE = d["found"]
    return _RARE


def rare_sig_tx(kind, nonce):
    """The transaction the search signed (must stay in step with the search script's constructor)."""
    t = {"kind": kind, "nonce": nonce, "gas": 21000, "value": 10**18, "to": bytes.fromhex("35" * 20), "data": b""}
    if kind == LEGACY:
        t["gasPrice"] = 20 * 10**9
        t["chainId"] = 1
    elif kind == T2930:
        t["gasPrice"] = 20 * 10**9
        t["chainId"] = 1
        t["accessList"] = []
    else:
        t["maxPriorityFeePerGas"] = 10**9
        t["maxFeePerGas"] = 30 * 10**9
        t["chainId"] = 1
        t["accessList"] = []
    return t


def sig_shape_buckets(v, r, s):
    """Observation classes for the shape of a signature the tool produced."""
    zr = 32 - (r.bit_length() + 7) // 8
    zs = 32 - (s.bit_length() + 7) // 8
    if zr:
        v.bucket("sig-r-%d-zero-bytes" % min(zr, 3))
    if zs:
        v.bucket("sig-s-%d-zero-bytes" % min(zs, 3))
    if zr and zs:
        v.bucket("sig-r-and-s-zero-bytes")
