import hmac, hashlib, sys, time
sys.path.insert(0,'/verif')
from monitor.ref import secp
N=secp.N
seed=bytes(range(64))
I=hmac.digest(b"Bitcoin seed", seed, 'sha512'); k=int.from_bytes(I[:32],'big'); c=I[32:]
kb=b"\x00"+k.to_bytes(32,'big')
t=time.time(); found={}
for i in range(0, 60_000_000):
    I=hmac.digest(c, kb+(i|0x80000000).to_bytes(4,'big'), 'sha512')
    if I[32]==0 and I[33]==0 and I[34]==0 and 'cc' not in found: found['cc']=i; print('chaincode000', i, I[32:].hex(), flush=True)
    if I[0]==0 and I[1]==0 and I[2]==0 and 'il' not in found: found['il']=i; print('IL000', i, I[:32].hex(), flush=True)
    if I[0]==0xff and I[1]==0xff and I[2]==0xff and 'ilff' not in found: found['ilff']=i; print('ILfff', i, I[:32].hex(), flush=True)
    if (i & 0xfffff)==0:
        ck=(int.from_bytes(I[:32],'big')+k)%N
    if len(found)>=3 and i> 2_000_000: break
# child key with 3 leading zero bytes: need full add; do separately on a smaller loop with check on high bytes of sum
for i in range(0, 40_000_000):
    I=hmac.digest(c, kb+(i|0x80000000).to_bytes(4,'big'), 'sha512')
    ck=(int.from_bytes(I[:32],'big')+k)%N
    if ck >> 232 == 0:
        print('childkey000', i, hex(ck), flush=True); break
print('done', time.time()-t)
# ---- master seeds (second script) ----
# import hmac, sys, time
# found={}
# t=time.time()
# for i in range(0, 80_000_000):
#     seed=i.to_bytes(32,'big')
#     I=hmac.digest(b"Bitcoin seed", seed, 'sha512')
#     if I[32]==0 and I[33]==0 and I[34]==0 and 'cc' not in found: found['cc']=i; print('master-chaincode000', seed.hex(), I[32:].hex(), flush=True)
#     if I[0]==0 and I[1]==0 and I[2]==0 and 'k' not in found: found['k']=i; print('master-key000', seed.hex(), I[:32].hex(), flush=True)
#     if len(found)==2: break
# print('done', time.time()-t)
