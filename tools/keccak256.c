/* Streaming Keccak-256 (original padding 0x01, as used by Ethereum) - an independent, fast reference for inputs that are too
 * large for the pure-Python model. Written from the Keccak specification (FIPS 202 round function); checked against the Python
 * model by the monitor before every use.
 *   keccak256 [-p PREFIXHEX] FILE      prints the lower-case hex digest of PREFIX || contents(FILE); FILE "-" = stdin      */
#include <stdint.h>
#include <stdio.h>
#include <stdlib.h>
#include <string.h>

static const uint64_t RC[24] = {
    0x0000000000000001ULL, 0x0000000000008082ULL, 0x800000000000808aULL, 0x8000000080008000ULL, 0x000000000000808bULL,
    0x0000000080000001ULL, 0x8000000080008081ULL, 0x8000000000008009ULL, 0x000000000000008aULL, 0x0000000000000088ULL,
    0x0000000080008009ULL, 0x000000008000000aULL, 0x000000008000808bULL, 0x800000000000008bULL, 0x8000000000008089ULL,
    0x8000000000008003ULL, 0x8000000000008002ULL, 0x8000000000000080ULL, 0x000000000000800aULL, 0x800000008000000aULL,
    0x8000000080008081ULL, 0x8000000000008080ULL, 0x0000000080000001ULL, 0x8000000080008008ULL};
static const int ROT[24] = {1, 3, 6, 10, 15, 21, 28, 36, 45, 55, 2, 14, 27, 41, 56, 8, 25, 43, 62, 18, 39, 61, 20, 44};
static const int PIL[24] = {10, 7, 11, 17, 18, 3, 5, 16, 8, 21, 24, 4, 15, 23, 19, 13, 12, 2, 20, 14, 22, 9, 6, 1};
#define ROL(x, n) (((x) << (n)) | ((x) >> (64 - (n))))

static void keccakf(uint64_t s[25]) {
    for (int r = 0; r < 24; r++) {
        uint64_t bc[5], t;
        for (int i = 0; i < 5; i++) bc[i] = s[i] ^ s[i + 5] ^ s[i + 10] ^ s[i + 15] ^ s[i + 20];
        for (int i = 0; i < 5; i++) {
            t = bc[(i + 4) % 5] ^ ROL(bc[(i + 1) % 5], 1);
            for (int j = 0; j < 25; j += 5) s[j + i] ^= t;
        }
        t = s[1];
        for (int i = 0; i < 24; i++) {
            int j = PIL[i];
            uint64_t b = s[j];
            s[j] = ROL(t, ROT[i]);
            t = b;
        }
        for (int j = 0; j < 25; j += 5) {
            for (int i = 0; i < 5; i++) bc[i] = s[j + i];
            for (int i = 0; i < 5; i++) s[j + i] ^= (~bc[(i + 1) % 5]) & bc[(i + 2) % 5];
        }
        s[0] ^= RC[r];
    }
}

#define RATE 136
static uint64_t st[25];
static unsigned char blk[RATE];
static size_t fill;

static void absorb(const unsigned char *p, size_t n) {
    while (n) {
        size_t k = RATE - fill;
        if (k > n) k = n;
        memcpy(blk + fill, p, k);
        fill += k; p += k; n -= k;
        if (fill == RATE) {
            for (int i = 0; i < RATE / 8; i++) {
                uint64_t w = 0;
                for (int b = 7; b >= 0; b--) w = (w << 8) | blk[i * 8 + b];
                st[i] ^= w;
            }
            keccakf(st);
            fill = 0;
        }
    }
}

int main(int argc, char **argv) {
    int a = 1;
    if (argc >= 3 && !strcmp(argv[1], "-p")) {
        const char *h = argv[2];
        size_t n = strlen(h) / 2;
        for (size_t i = 0; i < n; i++) {
            unsigned int v;
            if (sscanf(h + 2 * i, "%2x", &v) != 1) return 2;
            unsigned char c = (unsigned char)v;
            absorb(&c, 1);
        }
        a = 3;
    }
    if (a >= argc) return 2;
    FILE *f = strcmp(argv[a], "-") ? fopen(argv[a], "rb") : stdin;
    if (!f) { perror("open"); return 2; }
    static unsigned char buf[1 << 20];
    size_t n;
    while ((n = fread(buf, 1, sizeof buf, f)) > 0) absorb(buf, n);
    if (ferror(f)) return 2;
    memset(blk + fill, 0, RATE - fill);
    blk[fill] ^= 0x01;
    blk[RATE - 1] ^= 0x80;
    fill = RATE - 0; /* force one permutation over the padded block */
    {
        for (int i = 0; i < RATE / 8; i++) {
            uint64_t w = 0;
            for (int b = 7; b >= 0; b--) w = (w << 8) | blk[i * 8 + b];
            st[i] ^= w;
        }
        keccakf(st);
    }
    for (int i = 0; i < 32; i++) printf("%02x", (unsigned)((st[i / 8] >> (8 * (i % 8))) & 0xff));
    printf("\n");
    return 0;
}
