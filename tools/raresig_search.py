"""Offline search for signatures with rare shapes (leading zero bytes in r / s), for raw digests and for the three transaction kinds."""
import sys, json, hashlib, multiprocessing, time
sys.path.insert(0, '/verif')
from monitor.ref import secp, tx as txref
KEY = 0x4c0883a69102937d6231471b5dbb6204fe5129617082792ae468d01a3f362318
TO = bytes.fromhex("3535353535353535353535353535353535353535")

def mk(kind, nonce):
    t = {"kind": kind, "nonce": nonce, "gas": 21000, "value": 10**18, "to": TO, "data": b""}
    if kind == "legacy":
        t["gasPrice"] = 20 * 10**9; t["chainId"] = 1
    elif kind == "eip2930":
        t["gasPrice"] = 20 * 10**9; t["chainId"] = 1; t["accessList"] = []
    else:
        t["maxPriorityFeePerGas"] = 10**9; t["maxFeePerGas"] = 30 * 10**9; t["chainId"] = 1; t["accessList"] = []
    return t

def work(args):
    what, lo, hi = args
    out = []
    for i in range(lo, hi):
        if what == "raw":
            d = hashlib.sha256(b"rare-sig-%d" % i).digest()
        else:
            d = txref.signing_hash(mk(what, i))
        r, s, par, high = secp.sign_rfc6979(KEY, d)
        zr = 32 - (r.bit_length() + 7) // 8
        zs = 32 - (s.bit_length() + 7) // 8
        if zr >= 2 or zs >= 2 or (zr >= 1 and zs >= 1):
            out.append({"what": what, "i": i, "digest": d.hex(), "r": "%064x" % r, "s": "%064x" % s, "parity": par, "zr": zr, "zs": zs})
    return out

if __name__ == "__main__":
    N = int(sys.argv[1]); procs = int(sys.argv[2])
    jobs = []
    step = 4096
    for what, n in (("legacy", N), ("eip2930", N), ("eip1559", N), ("raw", 4 * N)):
        for lo in range(0, n, step):
            jobs.append((what, lo, min(n, lo + step)))
    res = []
    t = time.time()
    with multiprocessing.Pool(procs) as p:
        for k, o in enumerate(p.imap_unordered(work, jobs)):
            res += o
            if k % 20 == 0:
                json.dump({"key": "%064x" % KEY, "found": res}, open('/verif/out/raresig.partial.json', 'w'))
    json.dump({"key": "%064x" % KEY, "to": TO.hex(), "found": sorted(res, key=lambda x: (x["what"], x["i"]))}, open('/verif/monitor/data/rare_sigs.json', 'w'), indent=0)
    print(len(res), time.time() - t)
